package main

// dra.go - DRA (dynamic resource allocation) part of the scenarios: DeviceClass / ResourceSlice /
// ResourceClaim objects (resource.k8s.io/v1) in the fake clientset, and the projection of what the
// session believes about resource claims (C13: "... GPU-sharing groups, resource claims and queue usage").
//
// A node with dra = N publishes its N GPUs as devices "0".."N-1" of one ResourceSlice (driver
// draDriver, pool = node name) instead of the extended resource nvidia.com/gpu. A pod with a claim
// requests one device of class draClass through ONE ResourceClaim object; the entry in
// pod.spec.resourceClaims (pod-level claim name, the key of PodInfo.ResourceClaimInfo) differs from the
// object's name when the claim is generated from a ResourceClaimTemplate.

import (
	"context"
	"fmt"
	"sort"
	"strconv"
	"time"

	v1 "k8s.io/api/core/v1"
	resourceapi "k8s.io/api/resource/v1"
	metav1 "k8s.io/apimachinery/pkg/apis/meta/v1"
	"k8s.io/apimachinery/pkg/types"
	"k8s.io/client-go/kubernetes"

	"github.com/NVIDIA/KAI-scheduler/pkg/scheduler/api/common_info"
	"github.com/NVIDIA/KAI-scheduler/pkg/scheduler/cache"
	"github.com/NVIDIA/KAI-scheduler/pkg/scheduler/framework"
)

const (
	draDriver  = "gpu.nvidia.com"
	draClass   = "gpu.nvidia.com"
	draRequest = "gpu"
)

func (cfg *Cfg) hasDRA() bool {
	for _, n := range cfg.Nodes {
		if n.Dra > 0 {
			return true
		}
	}
	for _, p := range cfg.Pods {
		if p.Claim != "" {
			return true
		}
	}
	return false
}

// claimNames returns the ResourceClaim object names of the scenario (sorted).
func (cfg *Cfg) claimNames() []string {
	seen := map[string]bool{}
	for _, p := range cfg.Pods {
		if p.Claim != "" {
			seen[p.Claim] = true
		}
	}
	return sortedKeys(seen)
}

func nodeSelectorFor(node string) *v1.NodeSelector {
	return &v1.NodeSelector{NodeSelectorTerms: []v1.NodeSelectorTerm{{
		MatchFields: []v1.NodeSelectorRequirement{{Key: "metadata.name", Operator: v1.NodeSelectorOpIn, Values: []string{node}}}}}}
}

func createDRAObjects(ctx context.Context, kube kubernetes.Interface, cfg *Cfg) error {
	class := &resourceapi.DeviceClass{ObjectMeta: metav1.ObjectMeta{Name: draClass, UID: types.UID("class-" + draClass), ResourceVersion: "1",
		CreationTimestamp: metav1.NewTime(epoch)}}
	if _, err := kube.ResourceV1().DeviceClasses().Create(ctx, class, metav1.CreateOptions{}); err != nil {
		return err
	}
	for _, name := range sortedKeys(cfg.Nodes) {
		n := cfg.Nodes[name]
		if n.Dra == 0 {
			continue
		}
		nodeName := name
		slice := &resourceapi.ResourceSlice{
			ObjectMeta: metav1.ObjectMeta{Name: name + "-" + draDriver, UID: types.UID("slice-" + name), ResourceVersion: "1",
				CreationTimestamp: metav1.NewTime(epoch)},
			Spec: resourceapi.ResourceSliceSpec{Driver: draDriver, NodeName: &nodeName,
				Pool: resourceapi.ResourcePool{Name: name, Generation: 1, ResourceSliceCount: 1}},
		}
		for i := 0; i < n.Dra; i++ {
			slice.Spec.Devices = append(slice.Spec.Devices, resourceapi.Device{Name: strconv.Itoa(i)})
		}
		if _, err := kube.ResourceV1().ResourceSlices().Create(ctx, slice, metav1.CreateOptions{}); err != nil {
			return err
		}
	}
	claims := map[string]*resourceapi.ResourceClaim{}
	for _, pn := range sortedKeys(cfg.Pods) {
		p := cfg.Pods[pn]
		if p.Claim == "" {
			continue
		}
		if p.Pcn == "" {
			return fmt.Errorf("pod %s: claim without pod-level claim name", pn)
		}
		c, ok := claims[p.Claim]
		if !ok {
			c = &resourceapi.ResourceClaim{
				ObjectMeta: metav1.ObjectMeta{Name: p.Claim, Namespace: ns, UID: types.UID("claim-" + p.Claim), ResourceVersion: "1",
					CreationTimestamp: metav1.NewTime(epoch), Labels: map[string]string{"kai.scheduler/queue": cfg.Jobs[p.Job].Queue}},
				Spec: resourceapi.ResourceClaimSpec{Devices: resourceapi.DeviceClaim{Requests: []resourceapi.DeviceRequest{{
					Name:    draRequest,
					Exactly: &resourceapi.ExactDeviceRequest{DeviceClassName: draClass, AllocationMode: resourceapi.DeviceAllocationModeExactCount, Count: 1}}}}},
			}
			if p.Pcn != p.Claim {
				// generated for the pod by the resource claim controller
				isTrue := true
				c.OwnerReferences = []metav1.OwnerReference{{APIVersion: "v1", Kind: "Pod", Name: pn, UID: types.UID(pn), Controller: &isTrue, BlockOwnerDeletion: &isTrue}}
				c.Annotations = map[string]string{"resource.kubernetes.io/pod-claim-name": p.Pcn}
			}
			claims[p.Claim] = c
		}
		if p.St == "Running" || p.St == "Releasing" {
			nd, ok := cfg.Nodes[p.Node]
			if !ok || p.Dev < 0 || p.Dev >= nd.Dra {
				return fmt.Errorf("pod %s: device %d is not a DRA device of node %q", pn, p.Dev, p.Node)
			}
			alloc := &resourceapi.AllocationResult{
				Devices: resourceapi.DeviceAllocationResult{Results: []resourceapi.DeviceRequestAllocationResult{{
					Request: draRequest, Driver: draDriver, Pool: p.Node, Device: strconv.Itoa(p.Dev)}}},
				NodeSelector: nodeSelectorFor(p.Node),
			}
			if c.Status.Allocation != nil && (c.Status.Allocation.Devices.Results[0].Pool != p.Node || c.Status.Allocation.Devices.Results[0].Device != strconv.Itoa(p.Dev)) {
				return fmt.Errorf("claim %s: consumers on different devices", p.Claim)
			}
			c.Status.Allocation = alloc
			c.Status.ReservedFor = append(c.Status.ReservedFor, resourceapi.ResourceClaimConsumerReference{Resource: "pods", Name: pn, UID: types.UID(pn)})
		} else if p.Dev >= 0 {
			return fmt.Errorf("pod %s: a %s pod holds no device", pn, p.St)
		}
	}
	for _, name := range sortedKeys(claims) {
		if _, err := kube.ResourceV1().ResourceClaims(ns).Create(ctx, claims[name], metav1.CreateOptions{}); err != nil {
			return err
		}
	}
	return nil
}

// waitForDRA waits until the scheduler's DRA manager (assume cache over the claim informer, resource
// slice tracker) has seen every object of the scenario: its stores are filled by informer event
// handlers, which may lag behind WaitForCacheSync. Only completeness is waited for, nothing is timed.
func waitForDRA(c cache.Cache, cfg *Cfg) error {
	plugins := c.InternalK8sPlugins()
	if plugins == nil || plugins.FrameworkHandle == nil {
		return fmt.Errorf("no internal k8s plugins")
	}
	if !plugins.Features.EnableDynamicResourceAllocation {
		return fmt.Errorf("the scheduler cache did not enable DynamicResourceAllocation from the discovery data")
	}
	mgr := plugins.FrameworkHandle.SharedDRAManager()
	if mgr == nil {
		return fmt.Errorf("no shared DRA manager")
	}
	wantSlices := 0
	for _, n := range cfg.Nodes {
		if n.Dra > 0 {
			wantSlices++
		}
	}
	wantClaims := len(cfg.claimNames())
	var last string
	for i := 0; i < 20000; i++ {
		claims, err1 := mgr.ResourceClaims().List()
		slices, err2 := mgr.ResourceSlices().ListWithDeviceTaintRules()
		_, err3 := mgr.DeviceClasses().Get(draClass)
		devs, err4 := mgr.ResourceClaims().ListAllAllocatedDevices()
		allocated := map[string]bool{}
		for _, cl := range claims {
			if cl.Status.Allocation != nil {
				for _, r := range cl.Status.Allocation.Devices.Results {
					allocated[r.Pool+"/"+r.Device] = true
				}
			}
		}
		if err1 == nil && err2 == nil && err3 == nil && err4 == nil && len(claims) == wantClaims && len(slices) == wantSlices && devs.Len() == len(allocated) {
			return nil
		}
		last = fmt.Sprintf("claims %d/%d (%v) slices %d/%d (%v) class (%v) devices %d/%d (%v)", len(claims), wantClaims, err1, len(slices), wantSlices, err2, err3, devs.Len(), len(allocated), err4)
		time.Sleep(time.Millisecond)
	}
	return fmt.Errorf("the DRA manager never saw the scenario's objects: %s", last)
}

// freeDevices is the number of DRA devices of the node that the session's DRA manager does not count as allocated
// (what the DRA filter of the fit check would find); -1 = the node publishes no DRA devices.
func freeDevices(cfg *Cfg, ssn *framework.Session, node string) (int, error) {
	n := cfg.Nodes[node]
	if n.Dra == 0 {
		return -1, nil
	}
	devs, err := ssn.InternalK8sPlugins().FrameworkHandle.SharedDRAManager().ResourceClaims().ListAllAllocatedDevices()
	if err != nil {
		return 0, err
	}
	used := 0
	for id := range devs {
		if id.Pool.String() == node {
			used++
		}
	}
	return n.Dra - used, nil
}

// ---- projection ----------------------------------------------------------------------------------

// selNode is the node an allocation is pinned to ("" = no selector, "?" = not a single-node selector)
func selNode(sel *v1.NodeSelector) string {
	if sel == nil {
		return ""
	}
	if len(sel.NodeSelectorTerms) == 1 && len(sel.NodeSelectorTerms[0].MatchExpressions) == 0 && len(sel.NodeSelectorTerms[0].MatchFields) == 1 {
		f := sel.NodeSelectorTerms[0].MatchFields[0]
		if f.Key == "metadata.name" && f.Operator == v1.NodeSelectorOpIn && len(f.Values) == 1 {
			return f.Values[0]
		}
	}
	return "?"
}

// devicesOf: "pool/device" of every allocated device, in result order; has = 1 if there is an allocation at all
func devicesOf(a *resourceapi.AllocationResult) (devs []string, node string, has int) {
	devs = []string{}
	if a == nil {
		return devs, "", 0
	}
	for _, r := range a.Devices.Results {
		devs = append(devs, r.Pool+"/"+r.Device)
	}
	return devs, selNode(a.NodeSelector), 1
}

// ProjectClaims is what the session believes about resource claims:
//
//	pods[p]:  (pods with a claim) the pod's own bookkeeping (PodInfo.ResourceClaimInfo): n = number of entries, has = 1 if there is an
//	          entry under the pod-level claim name, alloc / dev / node = its allocation (devices, node); and, for
//	          the ResourceClaim object the pod refers to, the view of the session's DRA manager (what the DRA
//	          allocator works from): oalloc / odev / onode = allocation, ores = names of the pods it is reserved for
//	inuse[n]: (nodes that publish DRA devices) the devices of node n the DRA manager counts as allocated
//
// The record has the same shape in every event of a scenario: pods without a claim and nodes without DRA devices have
// no entry (both parts are empty in a scenario without DRA); a pod without a claim must not have claim bookkeeping.
func ProjectClaims(cfg *Cfg, ssn *framework.Session) (M, error) {
	pods := M{}
	inuse := M{}
	for _, nn := range sortedKeys(cfg.Nodes) {
		if cfg.Nodes[nn].Dra > 0 {
			inuse[nn] = []string{}
		}
	}
	dra := cfg.hasDRA()
	var tracker interface {
		Get(namespace, claimName string) (*resourceapi.ResourceClaim, error)
	}
	if dra {
		plugins := ssn.InternalK8sPlugins()
		if plugins == nil || plugins.FrameworkHandle == nil || plugins.FrameworkHandle.SharedDRAManager() == nil {
			return nil, fmt.Errorf("session without a DRA manager")
		}
		ct := plugins.FrameworkHandle.SharedDRAManager().ResourceClaims()
		tracker = ct
		devs, err := ct.ListAllAllocatedDevices()
		if err != nil {
			return nil, err
		}
		for id := range devs {
			if id.Driver.String() != draDriver {
				return nil, fmt.Errorf("allocated device %s of an unknown driver", id.String())
			}
			pool := id.Pool.String()
			l, ok := inuse[pool].([]string)
			if !ok {
				return nil, fmt.Errorf("allocated device %s of an unknown pool", id.String())
			}
			inuse[pool] = append(l, id.Device.String())
		}
		for nn := range inuse {
			sort.Strings(inuse[nn].([]string))
		}
		// every claim object the manager knows belongs to the scenario
		all, err := ct.List()
		if err != nil {
			return nil, err
		}
		known := map[string]bool{}
		for _, c := range cfg.claimNames() {
			known[c] = true
		}
		for _, c := range all {
			if !known[c.Name] {
				return nil, fmt.Errorf("unknown resource claim %s in the DRA manager", c.Name)
			}
		}
	}
	for _, pn := range sortedKeys(cfg.Pods) {
		pc := cfg.Pods[pn]
		e := M{"pcn": pc.Pcn, "n": 0, "has": 0, "alloc": 0, "dev": []string{}, "node": "", "obj": pc.Claim, "oalloc": 0, "odev": []string{}, "onode": "", "ores": []string{}}
		if pc.Claim != "" {
			pods[pn] = e
		}
		job := ssn.ClusterInfo.PodGroupInfos[common_info.PodGroupID(pc.Job)]
		if job == nil {
			return nil, fmt.Errorf("job %s missing in session", pc.Job)
		}
		pi := job.GetAllPodsMap()[common_info.PodID(pn)]
		if pi == nil {
			return nil, fmt.Errorf("pod %s not in job", pn)
		}
		e["n"] = len(pi.ResourceClaimInfo)
		if pc.Claim == "" {
			if len(pi.ResourceClaimInfo) != 0 {
				return nil, fmt.Errorf("pod %s without a claim has resource claim info", pn)
			}
			continue
		}
		if ci, ok := pi.ResourceClaimInfo[pc.Pcn]; ok && ci != nil {
			e["has"] = 1
			e["dev"], e["node"], e["alloc"] = devicesOf(ci.Allocation)
		}
		obj, err := tracker.Get(ns, pc.Claim)
		if err != nil {
			return nil, fmt.Errorf("claim %s: %v", pc.Claim, err)
		}
		e["odev"], e["onode"], e["oalloc"] = devicesOf(obj.Status.Allocation)
		res := []string{}
		for _, r := range obj.Status.ReservedFor {
			if r.Resource != "pods" || r.APIGroup != "" {
				return nil, fmt.Errorf("claim %s reserved for a non-pod %v", pc.Claim, r)
			}
			if _, ok := cfg.Pods[r.Name]; !ok || string(r.UID) != r.Name {
				return nil, fmt.Errorf("claim %s reserved for an unknown pod %v", pc.Claim, r)
			}
			res = append(res, r.Name)
		}
		sort.Strings(res)
		e["ores"] = res
	}
	return M{"pods": pods, "inuse": inuse}, nil
}
