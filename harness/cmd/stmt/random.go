package main

import (
	"github.com/NVIDIA/KAI-scheduler/pkg/scheduler/conf"

	"verif/harness/internal/tracefmt"
)

func runRandom(config *conf.SchedulerConfiguration, tw *tracefmt.Writer, n int, seed int64, plen, nworlds int) int {
	return 0
}
