package main

// random.go - seeded random scenarios and random WELL-FORMED statement programs, much longer than
// TLC's bound: nested checkpoints, rollback to any outstanding checkpoint, unevict, evict-then-pipeline
// of the same pod (same GPU, other GPU of the node, other node), convert, several statements per
// session, commit with injected Bind / Evict failures. The generator is adaptive: the guards (what the
// actions would be allowed to issue) are evaluated on the REAL session state; it predicts nothing.

import (
	"fmt"
	"math/rand"

	"github.com/NVIDIA/KAI-scheduler/pkg/scheduler/api/common_info"
	"github.com/NVIDIA/KAI-scheduler/pkg/scheduler/api/node_info"
	"github.com/NVIDIA/KAI-scheduler/pkg/scheduler/api/pod_info"
	"github.com/NVIDIA/KAI-scheduler/pkg/scheduler/api/pod_status"
	"github.com/NVIDIA/KAI-scheduler/pkg/scheduler/conf"

	"verif/harness/internal/tracefmt"
)

// memOn is GetResourceGpuMemory(ResReq) of the pod on a node whose devices have gmem memory units
func memOn(pc PodCfg, gmem int) int {
	if pc.Kind == "mem" {
		return pc.Mem
	}
	return pc.Gq * gmem / 1000
}

func randomCfg(rng *rand.Rand) *Cfg {
	cfg := &Cfg{Nodes: map[string]NodeCfg{}, Queues: map[string]QueueCfg{}, Jobs: map[string]JobCfg{}, Pods: map[string]PodCfg{}}
	for i := 0; i < 12; i++ {
		cfg.Groups = append(cfg.Groups, fmt.Sprintf("g%d", i+1))
	}
	labelled := rng.Intn(2) == 0 // nodes carry nvidia.com/gpu.memory (of different sizes); only then gpu-memory pods exist
	nn := 2 + rng.Intn(2)
	type nstate struct {
		freeGpu, freeCpu int
		groups           map[string]int // group -> free memory
	}
	ns := map[string]*nstate{}
	var nodeNames []string
	for i := 0; i < nn; i++ {
		name := fmt.Sprintf("n%d", i+1)
		g := 1 + rng.Intn(4)
		c := 4000 + 2000*rng.Intn(4)
		gm := 100
		if labelled {
			gm = []int{8000, 16000}[(i+rng.Intn(3))%2]
		}
		cfg.Nodes[name] = NodeCfg{Gpu: g, Cpu: c, Gmem: gm}
		ns[name] = &nstate{g, c, map[string]int{}}
		nodeNames = append(nodeNames, name)
	}
	// queues: one or two top queues, 2-3 leaves
	tops := []string{"d1"}
	cfg.Queues["d1"] = QueueCfg{Parent: ""}
	if rng.Intn(2) == 0 {
		tops = append(tops, "d2")
		cfg.Queues["d2"] = QueueCfg{Parent: ""}
	}
	var leaves []string
	for i := 0; i < 2+rng.Intn(2); i++ {
		q := fmt.Sprintf("q%d", i+1)
		cfg.Queues[q] = QueueCfg{Parent: tops[rng.Intn(len(tops))]}
		leaves = append(leaves, q)
	}
	nj := 3 + rng.Intn(3)
	np := 0
	nextGroup := 0
	for j := 0; j < nj; j++ {
		jn := fmt.Sprintf("j%d", j+1)
		k := 1 + rng.Intn(3)
		cfg.Jobs[jn] = JobCfg{Queue: leaves[rng.Intn(len(leaves))], NP: rng.Intn(2), Min: 1 + rng.Intn(k)}
		kind := "whole"
		if x := rng.Intn(10); x < 4 {
			kind = "frac"
			if labelled && x < 2 {
				kind = "mem"
			}
		}
		for t := 0; t < k && np < 10; t++ {
			np++
			pn := fmt.Sprintf("p%02d", np)
			pc := PodCfg{Job: jn, Kind: kind, Cpu: 500 * (1 + rng.Intn(2)), St: "Pending", Groups: []string{}, Ord: np}
			if kind == "whole" {
				pc.Gpu = 1
				if rng.Intn(4) == 0 {
					pc.Gpu = 2
				}
				pc.Gq = 1000 * pc.Gpu
			} else if kind == "frac" {
				pc.Gq = []int{250, 500, 500}[rng.Intn(3)]
			} else {
				pc.Mem = []int{2000, 4000}[rng.Intn(2)]
			}
			// place it?
			if rng.Intn(10) < 6 {
				n := nodeNames[rng.Intn(len(nodeNames))]
				s := ns[n]
				if s.freeCpu >= pc.Cpu {
					if kind == "whole" && s.freeGpu >= pc.Gpu {
						s.freeGpu -= pc.Gpu
						s.freeCpu -= pc.Cpu
						pc.St, pc.Node = "Running", n
					} else if kind != "whole" {
						placed := false
						need := memOn(pc, cfg.Nodes[n].Gmem)
						for _, g := range sortedKeys(s.groups) {
							if s.groups[g] >= need && rng.Intn(2) == 0 {
								s.groups[g] -= need
								pc.Groups = []string{g}
								placed = true
								break
							}
						}
						if !placed && s.freeGpu >= 1 && nextGroup < 6 {
							g := cfg.Groups[nextGroup]
							nextGroup++
							s.freeGpu--
							s.groups[g] = cfg.Nodes[n].Gmem - need
							pc.Groups = []string{g}
							placed = true
						}
						if placed {
							s.freeCpu -= pc.Cpu
							pc.St, pc.Node = "Running", n
						}
					}
					if pc.St == "Running" && rng.Intn(8) == 0 {
						pc.St = "Releasing" // a pod that is really terminating
					}
				}
			}
			cfg.Pods[pn] = pc
		}
	}
	return cfg
}

// randomDRACfg: a cluster whose GPUs are DRA devices; every pod asks for one GPU through a ResourceClaim of its own
// (half of them generated from a template: pod-level claim name != object name); running pods sit on random
// devices of their node (not the first free ones). No pod is really terminating: a free GPU of the node accounting
// then is a free device of the DRA manager, so the generator's placement guards stay valid.
func randomDRACfg(rng *rand.Rand) *Cfg {
	cfg := &Cfg{Nodes: map[string]NodeCfg{}, Queues: map[string]QueueCfg{}, Jobs: map[string]JobCfg{}, Pods: map[string]PodCfg{},
		Groups: []string{"g1"}}
	nn := 2 + rng.Intn(2)
	type nstate struct {
		free    []int
		freeCpu int
	}
	ns := map[string]*nstate{}
	var nodeNames []string
	for i := 0; i < nn; i++ {
		name := fmt.Sprintf("n%d", i+1)
		g := 2 + rng.Intn(3)
		c := 4000 + 2000*rng.Intn(3)
		cfg.Nodes[name] = NodeCfg{Gpu: g, Cpu: c, Gmem: 100, Dra: g}
		st := &nstate{freeCpu: c}
		for d := 0; d < g; d++ {
			st.free = append(st.free, d)
		}
		ns[name] = st
		nodeNames = append(nodeNames, name)
	}
	cfg.Queues["d1"] = QueueCfg{Parent: ""}
	var leaves []string
	for i := 0; i < 2+rng.Intn(2); i++ {
		q := fmt.Sprintf("q%d", i+1)
		cfg.Queues[q] = QueueCfg{Parent: "d1"}
		leaves = append(leaves, q)
	}
	nj := 3 + rng.Intn(3)
	np := 0
	for j := 0; j < nj; j++ {
		jn := fmt.Sprintf("j%d", j+1)
		k := 1 + rng.Intn(3)
		cfg.Jobs[jn] = JobCfg{Queue: leaves[rng.Intn(len(leaves))], NP: rng.Intn(2), Min: 1 + rng.Intn(k)}
		for t := 0; t < k && np < 10; t++ {
			np++
			pn := fmt.Sprintf("p%02d", np)
			pc := PodCfg{Job: jn, Kind: "whole", Gpu: 1, Gq: 1000, Cpu: 500 * (1 + rng.Intn(2)), St: "Pending", Groups: []string{}, Ord: np, Dev: -1}
			if rng.Intn(2) == 0 {
				pc.Pcn, pc.Claim = "gpu", fmt.Sprintf("%s-gpu-%05d", pn, rng.Intn(100000))
			} else {
				pc.Claim = pn + "-claim"
				pc.Pcn = pc.Claim
			}
			if rng.Intn(10) < 6 {
				n := nodeNames[rng.Intn(len(nodeNames))]
				st := ns[n]
				if st.freeCpu >= pc.Cpu && len(st.free) > 0 {
					i := rng.Intn(len(st.free))
					pc.St, pc.Node, pc.Dev = "Running", n, st.free[i]
					st.free = append(st.free[:i], st.free[i+1:]...)
					st.freeCpu -= pc.Cpu
				}
			}
			cfg.Pods[pn] = pc
		}
	}
	return cfg
}

type gen struct {
	r      *Runner
	rng    *rand.Rand
	clean  bool  // no GPU moves of evicted shared pods, no injected Evict failures
	cps    []int // outstanding checkpoints of the current statement
	used   map[string]bool
	conv   bool
	nfails int
}

func (g *gen) pod(p string) *pod_info.PodInfo { return g.r.task(p) }

func (g *gen) node(n string) *node_info.NodeInfo { return g.r.ssn.ClusterInfo.Nodes[n] }

func (g *gen) groupInUse(id string) bool {
	if g.used[id] {
		return true
	}
	for _, ni := range g.r.ssn.ClusterInfo.Nodes {
		if ni.UsedSharedGPUsMemory[id] != 0 || ni.ReleasingSharedGPUsMemory[id] != 0 || ni.AllocatedSharedGPUsMemory[id] != 0 || ni.ReleasingSharedGPUs[id] {
			return true
		}
		for _, pi := range ni.PodInfos {
			for _, x := range pi.GPUGroups {
				if x == id {
					return true
				}
			}
		}
	}
	for _, job := range g.r.ssn.ClusterInfo.PodGroupInfos {
		for _, pi := range job.GetAllPodsMap() {
			for _, x := range pi.GPUGroups {
				if x == id {
					return true
				}
			}
		}
	}
	return false
}

func (g *gen) freshGroup() (string, bool) {
	for _, id := range g.r.cfg.Groups {
		if !g.groupInUse(id) {
			return id, true
		}
	}
	return "", false
}

// choices of (node, groups) where the caller would place pod p by Allocate (alloc) or Pipeline
func (g *gen) placements(p string, alloc bool) [][2]any {
	pc := g.r.cfg.Pods[p]
	var out [][2]any
	for _, n := range sortedKeys(g.r.cfg.Nodes) {
		ni := g.node(n)
		gpus, cpu := ni.Idle.GPUs(), ni.Idle.Cpu()
		if !alloc {
			gpus += ni.Releasing.GPUs()
			cpu += ni.Releasing.Cpu()
		}
		if cpu < float64(pc.Cpu) {
			continue
		}
		if pc.Claim != "" && !g.deviceFree(n) {
			continue // the fit check's DRA filter finds no device for the claim on this node
		}
		if pc.Kind == "whole" {
			if gpus >= float64(pc.Gpu) {
				out = append(out, [2]any{n, []string{}})
			}
			continue
		}
		for _, id := range g.r.cfg.Groups {
			um, rm, am := ni.UsedSharedGPUsMemory[id], ni.ReleasingSharedGPUsMemory[id], ni.AllocatedSharedGPUsMemory[id]
			if um <= 0 || am == rm {
				continue
			}
			free := int64(g.r.cfg.Nodes[n].Gmem) - am
			if !alloc {
				free += rm
			}
			if free >= int64(memOn(pc, g.r.cfg.Nodes[n].Gmem)) {
				out = append(out, [2]any{n, []string{id}})
			}
		}
		if gpus >= 1 {
			if id, ok := g.freshGroup(); ok {
				out = append(out, [2]any{n, []string{id}})
			}
		}
	}
	return out
}

// deviceFree: the node publishes DRA devices and the session's DRA manager counts at least one of them as free
func (g *gen) deviceFree(n string) bool {
	k, err := freeDevices(g.r.cfg, g.r.ssn, n)
	if err != nil {
		g.r.fail(err)
		return false
	}
	return k > 0
}

func eqGroups(a, b []string) bool {
	if len(a) != len(b) {
		return false
	}
	for i := range a {
		if a[i] != b[i] {
			return false
		}
	}
	return true
}

func (g *gen) shouldPipelineJob(j string) bool {
	job := g.r.ssn.ClusterInfo.PodGroupInfos[common_info.PodGroupID(j)]
	return job != nil && job.ShouldPipelineJob()
}

type cand struct {
	w int
	f func()
}

func (g *gen) newStatement() {
	g.cps = nil
	g.used = map[string]bool{}
	g.conv = false
}

// one random enabled operation; false if nothing is enabled
func (g *gen) step() bool {
	r := g.r
	ops := r.stmt.VerifOps()
	nops := len(ops)
	var cs []cand
	add := func(w int, f func()) { cs = append(cs, cand{w, f}) }
	shaped := true // allocate-action shaped statement (only allocate / pipeline entries)
	hasAlloc := map[string]bool{}
	for _, o := range ops {
		if o.Name != "allocate" && o.Name != "pipeline" {
			shaped = false
		}
		if o.Name == "allocate" && o.Task != nil {
			hasAlloc[string(o.Task.Job)] = true
		}
	}
	if !g.conv {
		if len(g.cps) == 0 || g.cps[len(g.cps)-1] != nops {
			add(2, func() {
				r.Step(Label{N: "Checkpoint"})
				g.cps = append(g.cps, len(r.stmt.VerifOps()))
			})
		}
		for _, p := range sortedKeys(r.cfg.Pods) {
			p := p
			t := g.pod(p)
			if t == nil {
				return false
			}
			switch {
			case t.Status == pod_status.Running:
				add(4, func() { r.Step(Label{N: "Evict", P: p}) })
			case t.Status == pod_status.Pending:
				for _, pl := range g.placements(p, true) {
					pl := pl
					add(3, func() {
						gs := pl[1].([]string)
						for _, x := range gs {
							g.used[x] = true
						}
						r.Step(Label{N: "Allocate", P: p, Node: pl[0].(string), G: gs})
					})
				}
				for _, pl := range g.placements(p, false) {
					pl := pl
					add(2, func() {
						gs := pl[1].([]string)
						for _, x := range gs {
							g.used[x] = true
						}
						r.Step(Label{N: "Pipeline", P: p, Node: pl[0].(string), G: gs, Upd: g.rng.Intn(2) == 0})
					})
				}
			case t.Status == pod_status.Releasing && t.IsVirtualStatus:
				evicted := false
				for _, o := range ops {
					if o.Name == "evict" && o.Valid && o.Task != nil && string(o.Task.UID) == p {
						evicted = true
					}
				}
				if evicted {
					home := ""
					var homeGroups []string
					for _, n := range sortedKeys(r.cfg.Nodes) {
						for _, pi := range g.node(n).PodInfos {
							if string(pi.UID) == p {
								home, homeGroups = n, append([]string{}, pi.GPUGroups...)
							}
						}
					}
					// a pod with a resource claim is only put back on a node that passes the fit check (the actions reach
					// Unevict through Pipeline, after FittingNode): idle or releasing resources for it and a device the
					// DRA filter can give its - currently unallocated - claim
					fits := true
					if r.cfg.Pods[p].Claim != "" {
						fits = false
						for _, pl := range g.placements(p, false) {
							if pl[0].(string) == home {
								fits = true
							}
						}
					}
					if fits {
						add(3, func() { r.Step(Label{N: "Unevict", P: p}) })
					}
					// back onto its own node / GPU: Pipeline turns into Unevict
					if home != "" && fits {
						add(3, func() { r.Step(Label{N: "Pipeline", P: p, Node: home, G: homeGroups}) })
					}
					for _, pl := range g.placements(p, false) {
						pl := pl
						n, gs := pl[0].(string), pl[1].([]string)
						if n == home && r.cfg.Pods[p].Kind != "whole" && !eqGroups(gs, homeGroups) && g.clean {
							continue // GPU move of an evicted shared pod (finding F14)
						}
						add(3, func() {
							for _, x := range gs {
								g.used[x] = true
							}
							r.Step(Label{N: "Pipeline", P: p, Node: n, G: gs})
						})
					}
				}
			}
		}
		for _, cp := range g.cps {
			cp := cp
			if cp < nops {
				add(5, func() {
					r.Step(Label{N: "Rollback", Cp: cp})
					k := 0
					for _, c := range g.cps {
						if c <= cp {
							g.cps[k] = c
							k++
						}
					}
					g.cps = g.cps[:k]
				})
			}
		}
		if shaped {
			for _, j := range sortedKeys(r.cfg.Jobs) {
				j := j
				if hasAlloc[j] && g.shouldPipelineJob(j) {
					add(8, func() { r.Step(Label{N: "Convert", J: j}); g.conv = true })
				}
			}
		}
	}
	if nops > 0 {
		add(2, func() { r.Step(Label{N: "Discard"}); g.newStatement() })
		add(2, func() {
			// outcomes of the Cache calls Commit is going to make (valid entries in log order)
			var oks []bool
			for _, o := range ops {
				if !o.Valid || o.Name == "undo" {
					continue
				}
				ok := true
				if g.nfails < 3 && g.rng.Intn(6) == 0 {
					if o.Name == "allocate" || (o.Name == "evict" && !g.clean) {
						ok = false
						g.nfails++
					}
				}
				oks = append(oks, ok)
			}
			r.Commit(oks)
			g.newStatement()
		})
	}
	if len(cs) == 0 {
		return false
	}
	total := 0
	for _, c := range cs {
		total += c.w
	}
	x := g.rng.Intn(total)
	for _, c := range cs {
		if x < c.w {
			c.f()
			return true
		}
		x -= c.w
	}
	return true
}

// runRandom: n programs on nworlds random clusters, plus ndra extra clusters whose GPUs are DRA devices (generated
// from a random source of their own: the other clusters and their programs do not depend on ndra) with n/nworlds
// programs each.
func runRandom(config *conf.SchedulerConfiguration, tw *tracefmt.Writer, n int, seed int64, plen, nworlds, ndra int) (int, int) {
	rng := rand.New(rand.NewSource(seed))
	if nworlds > n {
		nworlds = n
	}
	done, rebuilt := 0, 0
	for wi := 0; wi < nworlds+ndra; wi++ {
		var cfg *Cfg
		if wi < nworlds {
			cfg = randomCfg(rng)
		} else {
			rng = rand.New(rand.NewSource(seed*1000003 + int64(wi)))
			cfg = randomDRACfg(rng)
		}
		w, err := NewWorld(cfg, config)
		if err != nil {
			die("world: %v", err)
		}
		r := &Runner{w: w, cfg: cfg, out: tw}
		cnt := n / nworlds
		if wi < n%nworlds {
			cnt++
		}
		if wi >= nworlds && cnt == 0 {
			cnt = 1
		}
		for i := 0; i < cnt; i++ {
			g := &gen{r: r, rng: rand.New(rand.NewSource(rng.Int63())), clean: i%2 == 0}
			class := "rnd-full"
			if g.clean {
				class = "rnd-clean"
			}
			id := fmt.Sprintf("r%d-w%d-%d", seed, wi, i)
			if err := r.Start(id, class); err != nil {
				die("program %s: %v", id, err)
			}
			g.newStatement()
			for k := 0; k < plen && r.err == nil; k++ {
				if !g.step() {
					break
				}
			}
			r.Finish()
			if r.err != nil {
				die("program %s: %v", id, r.err)
			}
			done++
		}
		r.Close()
		rebuilt += r.rebuilt
	}
	return done, rebuilt
}
