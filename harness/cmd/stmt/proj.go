package main

// proj.go - projects the REAL session state to the abstract state of spec/Stmt.tla
// (integers and strings only; fixed key sets so that TLC can compare records).

import (
	"fmt"
	"math"
	"sort"

	"github.com/NVIDIA/KAI-scheduler/pkg/scheduler/api/common_info"
	"github.com/NVIDIA/KAI-scheduler/pkg/scheduler/api/pod_status"
	"github.com/NVIDIA/KAI-scheduler/pkg/scheduler/framework"
	"github.com/NVIDIA/KAI-scheduler/pkg/scheduler/plugins/proportion"
)

var statuses = []pod_status.PodStatus{pod_status.Pending, pod_status.Allocated, pod_status.Pipelined,
	pod_status.Binding, pod_status.Running, pod_status.Releasing}

func milli(x float64) int { return int(math.Round(x * 1000)) }

func b2i(b bool) int {
	if b {
		return 1
	}
	return 0
}

func groupsOf(g []string) []string {
	out := make([]string, 0, len(g))
	out = append(out, g...)
	return out
}

type M = map[string]any

// Project returns the abstract state. It fails (error) on anything the abstraction cannot express
// (unknown status, unknown GPU group id, non-integral quantity): that is a harness problem, never
// silently dropped.
func Project(cfg *Cfg, ssn *framework.Session) (M, error) {
	ci := ssn.ClusterInfo
	knownGroup := map[string]bool{}
	for _, g := range cfg.Groups {
		knownGroup[g] = true
	}
	statusName := map[pod_status.PodStatus]bool{}
	for _, s := range statuses {
		statusName[s] = true
	}

	// pods (as the workload sees them) + jobs
	pods := M{}
	jobs := M{}
	for _, jn := range sortedKeys(cfg.Jobs) {
		job, ok := ci.PodGroupInfos[common_info.PodGroupID(jn)]
		if !ok {
			return nil, fmt.Errorf("job %s missing in session", jn)
		}
		all := job.GetAllPodsMap()
		for uid, pi := range all {
			if _, ok := cfg.Pods[string(uid)]; !ok {
				return nil, fmt.Errorf("unknown pod %s in job %s", uid, jn)
			}
			if !statusName[pi.Status] {
				return nil, fmt.Errorf("pod %s has status %s outside the abstraction", uid, pi.Status)
			}
			for _, g := range pi.GPUGroups {
				if !knownGroup[g] {
					return nil, fmt.Errorf("pod %s has unknown gpu group %q", uid, g)
				}
			}
			pods[string(uid)] = M{"st": pi.Status.String(), "node": pi.NodeName, "groups": groupsOf(pi.GPUGroups),
				"virt": b2i(pi.IsVirtualStatus), "acc": milli(pi.AcceptedResource.GetGpusQuota())}
		}
		idx := M{}
		for _, s := range statuses {
			idx[s.String()] = len(job.PodStatusIndex[s])
		}
		for s, m := range job.PodStatusIndex {
			if !statusName[s] && len(m) > 0 {
				return nil, fmt.Errorf("job %s indexes status %s outside the abstraction", jn, s)
			}
		}
		if len(job.PodSets) != 1 {
			return nil, fmt.Errorf("job %s has %d pod sets", jn, len(job.PodSets))
		}
		var psaa, psau, psal, psn int
		for _, ps := range job.PodSets {
			psaa, psau, psal = ps.GetNumActiveAllocatedTasks(), ps.GetNumActiveUsedTasks(), ps.GetNumAliveTasks()
			psn = len(ps.GetPodInfos())
		}
		// vector form of Allocated (C14_Vector): gpu and cpu components
		vg, vc := -1, -1
		if job.VectorMap != nil && len(job.AllocatedVector) > 0 {
			if i := job.VectorMap.GetIndex("nvidia.com/gpu"); i >= 0 {
				vg = milli(job.AllocatedVector.Get(i))
			}
			if i := job.VectorMap.GetIndex("cpu"); i >= 0 {
				vc = int(math.Round(job.AllocatedVector.Get(i)))
			}
		}
		jobs[jn] = M{"ag": milli(job.Allocated.GPUs()), "ac": int(math.Round(job.Allocated.Cpu())),
			"naa": job.GetActiveAllocatedTasksCount(), "idx": idx, "psaa": psaa, "psau": psau, "psal": psal, "psn": psn,
			"vg": vg, "vc": vc}
	}
	for _, pn := range sortedKeys(cfg.Pods) {
		if _, ok := pods[pn]; !ok {
			return nil, fmt.Errorf("pod %s not found in any job", pn)
		}
	}

	// nodes
	nodes := M{}
	for _, nn := range sortedKeys(cfg.Nodes) {
		ni, ok := ci.Nodes[nn]
		if !ok {
			return nil, fmt.Errorf("node %s missing in session", nn)
		}
		um, rm, am := M{}, M{}, M{}
		for _, g := range cfg.Groups {
			um[g] = int(ni.UsedSharedGPUsMemory[g])
			rm[g] = int(ni.ReleasingSharedGPUsMemory[g])
			am[g] = int(ni.AllocatedSharedGPUsMemory[g])
		}
		for _, mp := range []map[string]int64{ni.UsedSharedGPUsMemory, ni.ReleasingSharedGPUsMemory, ni.AllocatedSharedGPUsMemory} {
			for g, v := range mp {
				if !knownGroup[g] && v != 0 {
					return nil, fmt.Errorf("node %s has unknown gpu group %q", nn, g)
				}
			}
		}
		mark := []string{}
		for g, v := range ni.ReleasingSharedGPUs {
			if v {
				if !knownGroup[g] {
					return nil, fmt.Errorf("node %s marks unknown gpu group %q", nn, g)
				}
				mark = append(mark, g)
			}
		}
		sort.Strings(mark)
		np := M{}
		for _, pn := range sortedKeys(cfg.Pods) {
			np[pn] = M{"st": "none", "groups": []string{}}
		}
		for _, pi := range ni.PodInfos {
			if _, ok := cfg.Pods[string(pi.UID)]; !ok {
				return nil, fmt.Errorf("unknown pod %s on node %s", pi.UID, nn)
			}
			np[string(pi.UID)] = M{"st": pi.Status.String(), "groups": groupsOf(pi.GPUGroups)}
		}
		gi := ni.VectorMap.GetIndex("nvidia.com/gpu")
		cidx := ni.VectorMap.GetIndex("cpu")
		vec := func(v interface{ Get(int) float64 }, i int, gpu bool) int {
			if i < 0 {
				return 0
			}
			if gpu {
				return milli(v.Get(i))
			}
			return int(math.Round(v.Get(i)))
		}
		nodes[nn] = M{
			"ig": milli(ni.Idle.GPUs()), "rg": milli(ni.Releasing.GPUs()), "ug": milli(ni.Used.GPUs()),
			"ic": int(math.Round(ni.Idle.Cpu())), "rc": int(math.Round(ni.Releasing.Cpu())), "uc": int(math.Round(ni.Used.Cpu())),
			"vig": vec(ni.IdleVector, gi, true), "vrg": vec(ni.ReleasingVector, gi, true), "vug": vec(ni.UsedVector, gi, true),
			"vic": vec(ni.IdleVector, cidx, false), "vrc": vec(ni.ReleasingVector, cidx, false), "vuc": vec(ni.UsedVector, cidx, false),
			"um": um, "rm": rm, "am": am, "mark": mark, "pods": np,
		}
	}

	// queues (live attributes of the real proportion plugin)
	queues := M{}
	pp, ok := ssn.VerifPlugins()["proportion"]
	if !ok {
		return nil, fmt.Errorf("proportion plugin not registered")
	}
	qa := proportion.VerifQueues(pp)
	for _, qn := range sortedKeys(cfg.Queues) {
		q, ok := qa[common_info.QueueID(qn)]
		if !ok {
			return nil, fmt.Errorf("queue %s missing in proportion plugin", qn)
		}
		queues[qn] = M{"ag": milli(q.GPU.Allocated), "anpg": milli(q.GPU.AllocatedNotPreemptible), "rqg": milli(q.GPU.Request),
			"ac": int(math.Round(q.CPU.Allocated)), "anpc": int(math.Round(q.CPU.AllocatedNotPreemptible)), "rqc": int(math.Round(q.CPU.Request))}
	}
	claims, err := ProjectClaims(cfg, ssn)
	if err != nil {
		return nil, err
	}
	return M{"pods": pods, "nodes": nodes, "jobs": jobs, "queues": queues, "claims": claims}, nil
}

// ProjectOps is the op-log projection (name, pod, undo target, validity) of the real statement.
func ProjectOps(stmt *framework.Statement) []M {
	out := []M{}
	for _, o := range stmt.VerifOps() {
		p := ""
		if o.Task != nil {
			p = string(o.Task.UID)
		}
		out = append(out, M{"k": o.Name, "p": p, "tgt": o.Target, "valid": b2i(o.Valid)})
	}
	return out
}
