// Command cluster runs the REAL scheduler (real SchedulerCache on fake clientsets, real session,
// real actions) on abstract scenarios and records an ndjson trace of every scheduling decision
// (Cache.Bind / Evict / TaskPipelined with statement brackets), the API-store projection at every
// cycle start and the fair-share state of the session. Scenarios come from TLC (-in) or from the
// seeded generator (-random N -profile P).
package main

import (
	"bufio"
	"encoding/json"
	"flag"
	"fmt"
	"math/rand"
	"os"
	"time"

	"github.com/NVIDIA/KAI-scheduler/pkg/scheduler/log"

	"verif/harness/internal/tracefmt"
	"verif/harness/internal/world"
)

func main() {
	in := flag.String("in", "", "scenario ndjson")
	out := flag.String("out", "", "trace ndjson")
	random := flag.Int("random", 0, "number of generated scenarios")
	profile := flag.String("profile", "mixed", "generator profile")
	seed := flag.Int64("seed", 1, "seed")
	dump := flag.String("dump-scenarios", "", "also write the generated scenarios here")
	verbosity := flag.Int("v", 0, "scheduler log verbosity")
	watchdog := flag.Int("watchdog", 120, "seconds per scenario before the process aborts (exit 3)")
	acct := flag.String("acct", "", "also record the node accounting of every simulation step of every cycle here (ndjson for spec/NodeAcctCycleTrace.tla; default off)")
	acctMax := flag.Int("acct-max", 300, "-acct: observations kept per cycle and node")
	stmtobs := flag.String("stmtobs", "", "also record every statement scope the real actions abandon (Rollback / Discard) with the session view before and after, here (ndjson for spec/StmtCycleTrace.tla; default off)")
	stmtMax := flag.Int("stmtobs-max", 400, "-stmtobs: scopes kept per scenario")
	flag.Parse()
	_ = log.InitLoggers(*verbosity)
	w, err := tracefmt.Create(*out)
	if err != nil {
		panic(err)
	}
	var opt world.Options
	var aw *tracefmt.Writer
	if *acct != "" {
		aw, err = tracefmt.Create(*acct)
		if err != nil {
			panic(err)
		}
		opt.Acct = aw.Emit
		world.AcctMaxObs = *acctMax
	}
	var sw *tracefmt.Writer
	if *stmtobs != "" {
		sw, err = tracefmt.Create(*stmtobs)
		if err != nil {
			panic(err)
		}
		opt.Stmt = sw.Emit
		world.StmtMaxScopes = *stmtMax
	}
	var scs []*world.Scenario
	if *random > 0 {
		r := rand.New(rand.NewSource(*seed))
		for i := 0; i < *random; i++ {
			sc := world.Generate(r, *profile)
			sc.ID = fmt.Sprintf("%s-%d-%d", *profile, *seed, i)
			scs = append(scs, sc)
		}
	} else {
		f, err := os.Open(*in)
		if err != nil {
			panic(err)
		}
		s := bufio.NewScanner(f)
		s.Buffer(make([]byte, 1<<20), 1<<26)
		for s.Scan() {
			var sc world.Scenario
			if err := json.Unmarshal(s.Bytes(), &sc); err != nil {
				panic(err)
			}
			scs = append(scs, &sc)
		}
	}
	if *dump != "" {
		df, _ := os.Create(*dump)
		for _, sc := range scs {
			b, _ := json.Marshal(sc)
			df.Write(b)
			df.WriteString("\n")
		}
		df.Close()
	}
	n := 0
	for _, sc := range scs {
		if os.Getenv("VERIF_PROGRESS") != "" {
			fmt.Fprintf(os.Stderr, "SCENARIO %s\n", sc.ID)
		}
		done := make(chan error, 1)
		go func() { done <- world.RunWith(sc, w.Emit, opt) }()
		select {
		case err := <-done:
			if err != nil {
				fmt.Fprintf(os.Stderr, "scenario %s: %v\n", sc.ID, err)
				os.Exit(2)
			}
		case <-time.After(time.Duration(*watchdog) * time.Second):
			w.Emit(map[string]any{"ev": "Timeout"})
			w.Close()
			fmt.Fprintf(os.Stderr, "scenario %s: watchdog\n", sc.ID)
			os.Exit(3)
		}
		n++
	}
	if err := w.Close(); err != nil {
		panic(err)
	}
	if sw != nil {
		if err := sw.Close(); err != nil {
			panic(err)
		}
		st, _ := json.Marshal(world.StmtStats)
		defer fmt.Printf("{\"scenarios\": %d, \"events\": %d, \"stmt_lines\": %d, \"stmt\": %s}\n", n, w.Count(), sw.Count(), st)
	}
	if aw != nil {
		if err := aw.Close(); err != nil {
			panic(err)
		}
		st, _ := json.Marshal(world.AcctStats)
		fmt.Printf("{\"scenarios\": %d, \"events\": %d, \"acct_lines\": %d, \"acct\": %s}\n", n, w.Count(), aw.Count(), st)
		return
	}
	fmt.Printf("{\"scenarios\": %d, \"events\": %d}\n", n, w.Count())
}
