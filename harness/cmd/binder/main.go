// Command binder drives the REAL binder of KAI-Scheduler at API-call granularity (C11, C17):
//
//	controllers.BindRequestReconciler -> binding.Binder -> resourcereservation service (+ group mutex)
//	-> binder plugins (k8s-plugins incl. dynamicresources, gpusharing) and the pod / BindRequest
//	event handlers of pkg/binder/controllers,
//
// against a controller-runtime fake client (plus a client-go fake clientset for ResourceClaims, the
// only objects the DRA plugin touches) wrapped by an interceptor that numbers every client call of
// every actor (verb, kind, group), can FAIL call k (an error is returned instead of performing the
// call; the code continues on its own error path) or CRASH at call k (call k is performed, then the
// whole binder process is considered dead: every in-flight actor is abandoned - from then on none
// of its calls reaches the store and the lock hook is a no-op - and a fresh reconciler / binder /
// service / plugins instance is built; only the store survives).
//
// Actors (reconcile of a BindRequest, pod-deleted / pod-completed / BindRequest-deleted handlers,
// Sync, SyncForNode) run as real goroutines. Every client call and every call of LockMutexForGroup
// (hook group_mutex.VerifHook, build tag verif) is a gate: the goroutine parks until the controller
// grants it, so the interleaving given by the schedule is forced. After a grant the controller waits
// until the actor is parked at its next gate, has ended, or is REALLY blocked inside the group
// mutex: a granted lock request goes on into the real LockMutexForGroup (refcount bookkeeping and
// sync.Mutex included); if the mutex is taken the goroutine blocks there, which the controller
// observes in the goroutine dump (state sync.Mutex.Lock below LockMutexForGroup - a stable
// condition, polled every 200us; event Wait). A release wakes the waiter, the controller waits for
// it to reach its gate (event Lock) before it decides again; a waiter that does not show up within
// 5 s (only possible if the mutex object was lost) is marked stuck, and a segment whose unfinished
// actors are all stuck is abandoned like a crashed process (event Env Stuck). Apart from these two
// observations there is no timing dependence; the 180 s timeout is a failure detector (exit 2).
//
// The harness plays the environment: the binding sub-resource (sets pod.spec.nodeName, rejects a
// second binding like the API server), the reservation pod (when the service watches for the
// GPU-index annotation the harness writes it, with a fresh index per reservation pod), kubelet
// (PodRunning / PodCompleted), pod and BindRequest deletion.
//
// Input: ndjson schedules (exported by TLC from spec/Binder.tla and converted by checks/st_binder.py,
// or generated here with -random N -seed S). Output: ndjson trace: per schedule one Scenario line,
// then Start / Lock / Call / End / Env / Check / Final events, each carrying the projection of the
// API store after the event (see project()). -dry prints the call sequence of a fault-free
// reconcile per pod kind (K = number of calls).
package main

import (
	"bufio"
	"bytes"
	"context"
	"encoding/json"
	"errors"
	"flag"
	"fmt"
	"math/rand"
	"os"
	"runtime"
	"sort"
	"strconv"
	"strings"
	"sync"
	"sync/atomic"
	"time"

	"github.com/go-logr/logr"
	v1 "k8s.io/api/core/v1"
	resourceapi "k8s.io/api/resource/v1"
	apierrors "k8s.io/apimachinery/pkg/api/errors"
	"k8s.io/apimachinery/pkg/api/resource"
	metav1 "k8s.io/apimachinery/pkg/apis/meta/v1"
	k8sruntime "k8s.io/apimachinery/pkg/runtime"
	"k8s.io/apimachinery/pkg/runtime/schema"
	"k8s.io/apimachinery/pkg/types"
	"k8s.io/apimachinery/pkg/watch"
	"k8s.io/client-go/informers"
	k8sfake "k8s.io/client-go/kubernetes/fake"
	k8stesting "k8s.io/client-go/testing"
	"k8s.io/client-go/util/workqueue"
	"k8s.io/utils/ptr"
	ctrl "sigs.k8s.io/controller-runtime"
	"sigs.k8s.io/controller-runtime/pkg/client"
	"sigs.k8s.io/controller-runtime/pkg/client/fake"
	"sigs.k8s.io/controller-runtime/pkg/client/interceptor"
	"sigs.k8s.io/controller-runtime/pkg/event"
	"sigs.k8s.io/controller-runtime/pkg/reconcile"

	kaischeme "github.com/NVIDIA/KAI-scheduler/pkg/apis/client/clientset/versioned/scheme"
	"github.com/NVIDIA/KAI-scheduler/pkg/apis/scheduling/v1alpha2"
	"github.com/NVIDIA/KAI-scheduler/pkg/binder/binding"
	"github.com/NVIDIA/KAI-scheduler/pkg/binder/binding/resourcereservation"
	"github.com/NVIDIA/KAI-scheduler/pkg/binder/binding/resourcereservation/group_mutex"
	"github.com/NVIDIA/KAI-scheduler/pkg/binder/controllers"
	"github.com/NVIDIA/KAI-scheduler/pkg/binder/plugins"
	"github.com/NVIDIA/KAI-scheduler/pkg/binder/plugins/gpusharing"
	k8splugins "github.com/NVIDIA/KAI-scheduler/pkg/binder/plugins/k8s-plugins"
	"github.com/NVIDIA/KAI-scheduler/pkg/common/constants"

	"verif/harness/internal/tracefmt"
)

const (
	podNS      = "ns"
	resNS      = "kai-resource-reservation"
	scaleNS    = "kai-scale-adjust"
	nodeName   = "n1"
	schedName  = "kai-scheduler"
	idxAnn     = "run.ai/reserve_for_gpu_index"
	cmAnn      = "runai/shared-gpu-configmap"
	claimName  = "claim1"
	podClaim   = "c"
	NP         = 3 // pods 1,2: to be bound; pod 3: pre-existing running consumer
	NG         = 2
	existIdx   = 7 // device index of a pre-existing reservation pod of group g is existIdx+g
	detectSecs = 180
)

// ------------------------------------------------------------------------------------------
// schedule format
// ------------------------------------------------------------------------------------------

// Cfg is the static part of a scenario. Kinds per pod: "none", "whole", "frac", "multi", "dra"
// (pods 1, 2) and "cons" (pod 3: Running single-fraction consumer of group Grps[2][0], bound to n1,
// whose reservation pod exists with index existIdx+g).
type Cfg struct {
	Kinds []string `json:"kinds"`
	Grps  [][]int  `json:"grps"`
}

const termFinalizer = "verif/terminating"

type Act struct {
	I int    `json:"i"` // instance id within the segment (order / faults refer to it); 0 = same as A
	A int    `json:"a"` // model actor id: reconcile of pod p = p, 3 = Sync / SyncForNode, 4 = event handler
	T string `json:"t"` // rec | hdl | sync | syncnode
	P int    `json:"p"`
	E string `json:"e"` // hdl: PodDeleted | PodCompleted | BRDeleted
}

type Fault struct {
	A int    `json:"a"` // actor instance
	K int    `json:"k"` // k-th client call of that actor instance
	F string `json:"f"` // fail | crash
}

type Step struct {
	N      string  `json:"n"` // run | env | check | final
	Acts   []Act   `json:"acts,omitempty"`
	Order  []int   `json:"order,omitempty"`
	Faults []Fault `json:"faults,omitempty"`
	Envs   []Step  `json:"envs,omitempty"` // run: environment events placed by a negative order entry -(i+1)
	E      string  `json:"e,omitempty"`    // env: PodRunning | PodTerminating | Annotate | Restart
	P      int     `json:"p,omitempty"`
	G      int     `json:"g,omitempty"`
}

type Schedule struct {
	ID     string          `json:"id"`
	Sig    string          `json:"sig"`
	Class  string          `json:"class"`
	Cfg    Cfg             `json:"cfg"`
	Steps  []Step          `json:"steps"`
	Expect json.RawMessage `json:"expect,omitempty"` // the fault points the model expects (checked by the driver, not here)
}

// ------------------------------------------------------------------------------------------
// world
// ------------------------------------------------------------------------------------------

type bindRec struct {
	P    int    `json:"p"`
	Node string `json:"node"`
	Dup  int    `json:"dup"`
}

type msgType int

const (
	mReq msgType = iota
	mApplied
	mReleased
	mFinished
)

type request struct {
	isLock bool
	verb   string
	kind   string
	g      int
	pt     string
	reply  chan string
}

type msg struct {
	typ     msgType
	a       *actor
	req     *request
	natErr  bool
	g       int
	endErr  bool
	requeue bool
}

type actor struct {
	Act
	gid       int64
	dead      atomic.Bool
	k         int // calls granted so far in this segment
	pending   *request
	started   bool
	finished  bool
	lockG     int // group whose mutex acquisition was granted and is not yet known to have succeeded
	blockedOn int // group on whose real sync.Mutex the goroutine is blocked (observed in the goroutine dump)
	stuck     bool
}

type instance struct {
	rrs    resourcereservation.Interface
	rec    *controllers.BindRequestReconciler
	podRec *controllers.PodReconciler
}

type World struct {
	cfg           Cfg
	scheme        *k8sruntime.Scheme
	base          client.WithWatch
	gated         client.WithWatch
	cs            *k8sfake.Clientset
	inst          *instance
	binds         []bindRec
	nidx          int
	msgs          chan msg
	actors        sync.Map     // goroutine id -> *actor
	live          []*actor     // actors of the running segment
	wakeDue       map[int]bool // groups whose mutex was released while an actor was blocked on it
	wokeEarly     map[int]bool // a waiter of the group showed up before the release that woke it was reported
	tw            *tracefmt.Writer
	useK8sPlugins bool
	desync        int
	touch         int
	calllog       []map[string]any
}

var errInjected = errors.New("verif: injected API failure")
var errDead = errors.New("verif: binder process is dead")

func goid() int64 {
	var buf [64]byte
	n := runtime.Stack(buf[:], false)
	// "goroutine 123 [running]:..."
	s := strings.TrimPrefix(string(buf[:n]), "goroutine ")
	i := strings.IndexByte(s, ' ')
	id, err := strconv.ParseInt(s[:i], 10, 64)
	if err != nil {
		panic(err)
	}
	return id
}

func (w *World) me() *actor {
	if v, ok := w.actors.Load(goid()); ok {
		return v.(*actor)
	}
	return nil
}

var theWorld atomic.Pointer[World]

func lockHook(op string, group string) {
	w := theWorld.Load()
	if w == nil {
		return
	}
	a := w.me()
	if a == nil || a.dead.Load() {
		return
	}
	g := groupIdx(group)
	switch op {
	case "lock":
		req := &request{isLock: true, g: g, reply: make(chan string)}
		w.msgs <- msg{typ: mReq, a: a, req: req}
		<-req.reply // "ok" or "dead": either way proceed; a dead actor never reaches the store again
	case "released":
		w.msgs <- msg{typ: mReleased, a: a, g: g}
	}
}

func groupName(g int) string { return fmt.Sprintf("g%d", g) }
func groupIdx(name string) int {
	if len(name) == 2 && name[0] == 'g' {
		return int(name[1] - '0')
	}
	return 0
}
func podName(p int) string { return fmt.Sprintf("p%d", p) }
func brName(p int) string  { return fmt.Sprintf("br%d", p) }
func podIdx(name string) int {
	if len(name) == 2 && name[0] == 'p' {
		return int(name[1] - '0')
	}
	return 0
}

// gate is executed on the actor's goroutine for every client call.
func (w *World) gate(verb, kind string, g int, pt string, apply func() error) error {
	a := w.me()
	if a == nil {
		return apply() // the harness' own access to the store
	}
	if a.dead.Load() {
		return errDead
	}
	req := &request{verb: verb, kind: kind, g: g, pt: pt, reply: make(chan string)}
	w.msgs <- msg{typ: mReq, a: a, req: req}
	switch d := <-req.reply; d {
	case "dead":
		return errDead
	case "fail":
		w.msgs <- msg{typ: mApplied, a: a, natErr: false}
		return errInjected
	case "ok", "crash":
		err := apply()
		w.msgs <- msg{typ: mApplied, a: a, natErr: err != nil}
		if d == "crash" {
			<-req.reply // the controller has marked every actor dead
			return errDead
		}
		return err
	default:
		panic("bad decision " + d)
	}
}

func kindOf(obj k8sruntime.Object) string {
	switch o := obj.(type) {
	case *v1.Pod:
		if o.Namespace == resNS {
			return "ResPod"
		}
		return "Pod"
	case *v1.PodList:
		return "Pod"
	case *v1.ConfigMap:
		return "ConfigMap"
	case *v1.Node:
		return "Node"
	case *v1alpha2.BindRequest:
		return "BindRequest"
	}
	return fmt.Sprintf("%T", obj)
}

func listInfo(opts []client.ListOption) (kind string, g int, nameSel string) {
	lo := client.ListOptions{}
	lo.ApplyOptions(opts)
	kind = "Pod"
	if lo.Namespace == resNS {
		kind = "ResPod"
	} else if lo.Namespace == scaleNS {
		kind = "ScalePod"
	}
	if lo.LabelSelector != nil {
		reqs, _ := lo.LabelSelector.Requirements()
		for _, r := range reqs {
			if vals := r.Values().List(); len(vals) == 1 {
				g = groupIdx(vals[0])
			}
			if strings.HasPrefix(r.Key(), constants.MultiGpuGroupLabelPrefix) {
				kind = "PodMulti"
			}
		}
	}
	if lo.FieldSelector != nil {
		for _, r := range lo.FieldSelector.Requirements() {
			if r.Field == "spec.nodeName" {
				kind = "PodOnNode"
			}
			if r.Field == "metadata.name" {
				nameSel = r.Value
			}
		}
	}
	return
}

func patchType(p client.Patch) string {
	switch p.Type() {
	case types.JSONPatchType:
		return "json"
	case types.MergePatchType:
		return "merge"
	case types.StrategicMergePatchType:
		return "strategic"
	}
	return string(p.Type())
}

func (w *World) funcs() interceptor.Funcs {
	return interceptor.Funcs{
		Get: func(ctx context.Context, c client.WithWatch, key client.ObjectKey, obj client.Object, opts ...client.GetOption) error {
			return w.gate("get", kindOf(obj), 0, "", func() error { return c.Get(ctx, key, obj, opts...) })
		},
		List: func(ctx context.Context, c client.WithWatch, list client.ObjectList, opts ...client.ListOption) error {
			kind, g, _ := listInfo(opts)
			return w.gate("list", kind, g, "", func() error { return c.List(ctx, list, opts...) })
		},
		Create: func(ctx context.Context, c client.WithWatch, obj client.Object, opts ...client.CreateOption) error {
			g := 0
			if p, ok := obj.(*v1.Pod); ok && p.Namespace == resNS {
				g = groupIdx(p.Labels[constants.GPUGroup])
			}
			return w.gate("create", kindOf(obj), g, "", func() error { return c.Create(ctx, obj, opts...) })
		},
		Delete: func(ctx context.Context, c client.WithWatch, obj client.Object, opts ...client.DeleteOption) error {
			g := 0
			if p, ok := obj.(*v1.Pod); ok && p.Namespace == resNS {
				g = groupIdx(p.Labels[constants.GPUGroup])
			}
			return w.gate("delete", kindOf(obj), g, "", func() error { return c.Delete(ctx, obj, opts...) })
		},
		Update: func(ctx context.Context, c client.WithWatch, obj client.Object, opts ...client.UpdateOption) error {
			return w.gate("update", kindOf(obj), 0, "", func() error { return c.Update(ctx, obj, opts...) })
		},
		Patch: func(ctx context.Context, c client.WithWatch, obj client.Object, patch client.Patch, opts ...client.PatchOption) error {
			return w.gate("patch", kindOf(obj), 0, patchType(patch), func() error { return c.Patch(ctx, obj, patch, opts...) })
		},
		DeleteAllOf: func(ctx context.Context, c client.WithWatch, obj client.Object, opts ...client.DeleteAllOfOption) error {
			return w.gate("deleteallof", kindOf(obj), 0, "", func() error { return c.DeleteAllOf(ctx, obj, opts...) })
		},
		Watch: func(ctx context.Context, c client.WithWatch, list client.ObjectList, opts ...client.ListOption) (watch.Interface, error) {
			kind, _, nameSel := listInfo(opts)
			var wi watch.Interface
			err := w.gate("watch", kind, 0, "", func() error {
				raw, err := c.Watch(ctx, list, opts...)
				if err != nil {
					return err
				}
				// the fake tracker ignores field selectors: filter on metadata.name like the API server
				wi = watch.Filter(raw, func(e watch.Event) (watch.Event, bool) {
					if nameSel == "" {
						return e, true
					}
					if m, ok := e.Object.(metav1.Object); ok {
						return e, m.GetName() == nameSel
					}
					return e, true
				})
				// play the reservation pod: it reports the GPU index it was given
				if kind == "ResPod" && nameSel != "" && w.annotateReservation(nameSel) == resMissing {
					// the watched reservation pod is gone: the real wait would end with the allocation timeout, which
					// takes the same path as a watch error (unknown index -> delete the reservation pod -> error)
					raw.Stop()
					wi = nil
					return errors.New("verif: reservation pod is gone, the wait for its GPU index times out")
				}
				return nil
			})
			return wi, err
		},
		SubResourceCreate: func(ctx context.Context, c client.Client, sub string, obj client.Object, subObj client.Object, opts ...client.SubResourceCreateOption) error {
			if sub != "binding" {
				return w.gate("create", kindOf(obj)+"/"+sub, 0, "", func() error { return c.SubResource(sub).Create(ctx, obj, subObj, opts...) })
			}
			return w.gate("create", "Binding", 0, "", func() error { return w.bindSubresource(ctx, obj, subObj) })
		},
		SubResourcePatch: func(ctx context.Context, c client.Client, sub string, obj client.Object, patch client.Patch, opts ...client.SubResourcePatchOption) error {
			return w.gate("patch", kindOf(obj)+"Status", 0, patchType(patch), func() error { return c.SubResource(sub).Patch(ctx, obj, patch, opts...) })
		},
		SubResourceUpdate: func(ctx context.Context, c client.Client, sub string, obj client.Object, opts ...client.SubResourceUpdateOption) error {
			return w.gate("update", kindOf(obj)+"Status", 0, "", func() error { return c.SubResource(sub).Update(ctx, obj, opts...) })
		},
		SubResourceGet: func(ctx context.Context, c client.Client, sub string, obj client.Object, subObj client.Object, opts ...client.SubResourceGetOption) error {
			return w.gate("get", kindOf(obj)+"/"+sub, 0, "", func() error { return c.SubResource(sub).Get(ctx, obj, subObj, opts...) })
		},
	}
}

// bindSubresource is the API server's pods/binding: assigns the node once.
func (w *World) bindSubresource(ctx context.Context, obj client.Object, subObj client.Object) error {
	b, ok := subObj.(*v1.Binding)
	if !ok {
		return apierrors.NewBadRequest("not a Binding")
	}
	pod := &v1.Pod{}
	if err := w.base.Get(ctx, client.ObjectKeyFromObject(obj), pod); err != nil {
		return err
	}
	p := podIdx(pod.Name)
	if pod.Spec.NodeName != "" {
		w.binds = append(w.binds, bindRec{P: p, Node: b.Target.Name, Dup: 1})
		return apierrors.NewConflict(schema.GroupResource{Resource: "pods/binding"}, pod.Name,
			fmt.Errorf("pod %s is already assigned to node %q", pod.Name, pod.Spec.NodeName))
	}
	pod.Spec.NodeName = b.Target.Name
	if err := w.base.Update(ctx, pod); err != nil {
		return err
	}
	w.binds = append(w.binds, bindRec{P: p, Node: b.Target.Name, Dup: 0})
	return nil
}

// annotateReservation plays the reservation pod / device plugin: a fresh device index per pod.
func (w *World) annotateReservation(name string) int {
	pod := &v1.Pod{}
	if err := w.base.Get(context.Background(), client.ObjectKey{Namespace: resNS, Name: name}, pod); err != nil {
		return resMissing
	}
	if pod.Annotations == nil {
		pod.Annotations = map[string]string{}
	}
	st := resAnnotated
	if pod.Annotations[idxAnn] != "" {
		// already reported: a real watch starts with the current object; the fake one does not, so touch the pod
		st = resAlready
		w.touch++
		pod.Annotations["verif/touch"] = strconv.Itoa(w.touch)
	} else {
		pod.Annotations[idxAnn] = strconv.Itoa(w.nidx)
		w.nidx++
	}
	if err := w.base.Update(context.Background(), pod); err != nil {
		fatal("annotate reservation pod: %v", err)
	}
	return st
}

const (
	resAnnotated = iota
	resAlready
	resMissing
)

type nopRecorder struct{}

func (nopRecorder) Event(k8sruntime.Object, string, string, string)                  {}
func (nopRecorder) Eventf(k8sruntime.Object, string, string, string, ...interface{}) {}
func (nopRecorder) AnnotatedEventf(k8sruntime.Object, map[string]string, string, string, string, ...interface{}) {
}

func fatal(f string, a ...any) {
	fmt.Fprintf(os.Stderr, "binder harness: "+f+"\n", a...)
	os.Exit(2)
}

func (w *World) newInstance() {
	rrs := resourcereservation.NewService(false, w.gated, "", time.Hour, resNS, resNS, resNS, scaleNS, "", nil)
	bp := plugins.New()
	if w.useK8sPlugins {
		inf := informers.NewSharedInformerFactory(w.cs, 0)
		kp, err := k8splugins.New(w.cs, inf, 3600)
		if err != nil {
			fatal("k8s-plugins: %v", err)
		}
		bp.RegisterPlugin(kp)
	}
	bp.RegisterPlugin(gpusharing.New(w.gated, false))
	b := binding.NewBinder(w.gated, rrs, bp)
	params := &controllers.ReconcilerParams{MaxConcurrentReconciles: 2, RateLimiterBaseDelaySeconds: 1, RateLimiterMaxDelaySeconds: 1}
	w.inst = &instance{
		rrs:    rrs,
		rec:    controllers.NewBindRequestReconciler(w.gated, w.scheme, nopRecorder{}, params, b, rrs),
		podRec: &controllers.PodReconciler{Client: w.gated, Scheme: w.scheme, ResourceReservation: rrs, SchedulerName: schedName},
	}
	w.wakeDue = map[int]bool{}
	w.wokeEarly = map[int]bool{}
}

func nodeNameIndexer(o client.Object) []string {
	n := o.(*v1.Pod).Spec.NodeName
	if n == "" {
		return nil
	}
	return []string{n}
}

func isFracKind(k string) bool { return k == "frac" || k == "multi" }

func newWorld(cfg Cfg, scheme *k8sruntime.Scheme, tw *tracefmt.Writer) *World {
	w := &World{cfg: cfg, scheme: scheme, tw: tw, nidx: 1, msgs: make(chan msg)}
	objs := []client.Object{&v1.Node{ObjectMeta: metav1.ObjectMeta{Name: nodeName}}}
	var csObjs []k8sruntime.Object
	for p := 1; p <= NP; p++ {
		kind := cfg.Kinds[p-1]
		if kind == "none" {
			continue
		}
		pod := &v1.Pod{
			ObjectMeta: metav1.ObjectMeta{Name: podName(p), Namespace: podNS, UID: types.UID("uid-" + podName(p)),
				Labels: map[string]string{}, Annotations: map[string]string{}},
			Spec:   v1.PodSpec{SchedulerName: schedName, Containers: []v1.Container{{Name: "main", Image: "x"}}},
			Status: v1.PodStatus{Phase: v1.PodPending},
		}
		switch kind {
		case "whole":
			q := resource.MustParse("1")
			pod.Spec.Containers[0].Resources.Limits = v1.ResourceList{constants.NvidiaGpuResource: q}
			pod.Spec.Containers[0].Resources.Requests = v1.ResourceList{constants.NvidiaGpuResource: q}
		case "frac", "cons":
			pod.Annotations[constants.GpuFraction] = "0.5"
			pod.Annotations[cmAnn] = podName(p) + "-cfg"
		case "multi":
			pod.Annotations[constants.GpuFraction] = "0.5"
			pod.Annotations[constants.GpuFractionsNumDevices] = strconv.Itoa(len(cfg.Grps[p-1]))
			pod.Annotations[cmAnn] = podName(p) + "-cfg"
		case "dra":
			pod.Spec.ResourceClaims = []v1.PodResourceClaim{{Name: podClaim, ResourceClaimName: ptr.To(claimName)}}
			csObjs = append(csObjs, &resourceapi.ResourceClaim{ObjectMeta: metav1.ObjectMeta{Name: claimName, Namespace: podNS, UID: "uid-claim1"}})
		}
		if kind == "cons" {
			g := cfg.Grps[p-1][0]
			pod.Labels[constants.GPUGroup] = groupName(g)
			pod.Annotations[constants.ReceivedResourceType] = "Fraction"
			pod.Spec.NodeName = nodeName
			pod.Status.Phase = v1.PodRunning
			objs = append(objs, pod)
			objs = append(objs, &v1.Pod{
				ObjectMeta: metav1.ObjectMeta{Name: "gpu-reservation-" + nodeName + "-old" + strconv.Itoa(g), Namespace: resNS,
					Labels:      map[string]string{constants.GPUGroup: groupName(g), constants.AppLabelName: resNS},
					Annotations: map[string]string{idxAnn: strconv.Itoa(existIdx + g)}},
				Spec: v1.PodSpec{NodeName: nodeName, Containers: []v1.Container{{Name: "resource-reservation", Image: "x"}}},
			})
			continue
		}
		objs = append(objs, pod)
		br := &v1alpha2.BindRequest{
			ObjectMeta: metav1.ObjectMeta{Name: brName(p), Namespace: podNS},
			Spec:       v1alpha2.BindRequestSpec{PodName: podName(p), SelectedNode: nodeName, BackoffLimit: ptr.To(int32(8))},
			Status:     v1alpha2.BindRequestStatus{Phase: v1alpha2.BindRequestPhasePending},
		}
		switch {
		case isFracKind(kind):
			br.Spec.ReceivedResourceType = "Fraction"
			br.Spec.ReceivedGPU = &v1alpha2.ReceivedGPU{Count: len(cfg.Grps[p-1]), Portion: "0.5"}
			for _, g := range cfg.Grps[p-1] {
				br.Spec.SelectedGPUGroups = append(br.Spec.SelectedGPUGroups, groupName(g))
			}
		case kind == "whole":
			br.Spec.ReceivedResourceType = "Regular"
			br.Spec.ReceivedGPU = &v1alpha2.ReceivedGPU{Count: 1, Portion: "1"}
		case kind == "dra":
			br.Spec.ReceivedResourceType = "Regular"
			br.Spec.ResourceClaimAllocations = []v1alpha2.ResourceClaimAllocation{{Name: podClaim, Allocation: &resourceapi.AllocationResult{
				NodeSelector: &v1.NodeSelector{NodeSelectorTerms: []v1.NodeSelectorTerm{{MatchFields: []v1.NodeSelectorRequirement{
					{Key: "metadata.name", Operator: v1.NodeSelectorOpIn, Values: []string{nodeName}}}}}},
			}}}
		}
		objs = append(objs, br)
	}
	w.base = fake.NewClientBuilder().WithScheme(scheme).WithObjects(objs...).
		WithIndex(&v1.Pod{}, "spec.nodeName", nodeNameIndexer).
		WithStatusSubresource(&v1alpha2.BindRequest{}).Build()
	w.gated = interceptor.NewClient(w.base, w.funcs())
	w.cs = k8sfake.NewSimpleClientset(csObjs...)
	react := k8stesting.ObjectReaction(w.cs.Tracker())
	w.cs.PrependReactor("*", "resourceclaims", func(action k8stesting.Action) (bool, k8sruntime.Object, error) {
		var ret k8sruntime.Object
		kind := "ResourceClaim"
		if action.GetSubresource() != "" {
			kind = "ResourceClaimStatus"
		}
		err := w.gate(action.GetVerb(), kind, 0, "", func() error {
			_, o, err := react(action)
			ret = o
			return err
		})
		return true, ret, err
	})
	w.useK8sPlugins = true
	w.newInstance()
	return w
}

// ------------------------------------------------------------------------------------------
// projection of the API store (integers and strings only)
// ------------------------------------------------------------------------------------------

func (w *World) project() map[string]any {
	ctx := context.Background()
	pods := make([]any, NP)
	cms := make([]any, NP)
	brs := make([]any, NP)
	for p := 1; p <= NP; p++ {
		pod := &v1.Pod{}
		pm := map[string]any{"ph": "None", "node": "", "lab": []int{0, 0}, "ann": "", "cond": ""}
		cm := map[string]any{"cap": 0, "evar": 0, "nvd": []int{}, "por": 0}
		if err := w.base.Get(ctx, client.ObjectKey{Namespace: podNS, Name: podName(p)}, pod); err == nil {
			pm["ph"] = string(pod.Status.Phase)
			if pod.DeletionTimestamp != nil && pod.Status.Phase == v1.PodRunning {
				pm["ph"] = "Terminating"
			}
			pm["node"] = pod.Spec.NodeName
			lab := []int{0, 0}
			for g := 1; g <= NG; g++ {
				if pod.Labels[constants.GPUGroup] == groupName(g) {
					lab[g-1] = 1
				}
				if _, ok := pod.Labels[constants.MultiGpuGroupLabelPrefix+groupName(g)]; ok {
					lab[g-1] = 1
				}
			}
			pm["lab"] = lab
			pm["ann"] = pod.Annotations[constants.ReceivedResourceType]
			for _, c := range pod.Status.Conditions {
				if c.Type == "PodBound" {
					pm["cond"] = map[v1.ConditionStatus]string{v1.ConditionTrue: "T", v1.ConditionFalse: "F"}[c.Status]
				}
			}
		} else if w.cfg.Kinds[p-1] != "none" {
			pm["ph"] = "Gone"
		}
		if pre := podName(p) + "-cfg"; true {
			c := &v1.ConfigMap{}
			if err := w.base.Get(ctx, client.ObjectKey{Namespace: podNS, Name: pre + "-0"}, c); err == nil {
				cm["cap"] = 1
				if s, ok := c.Data["GPU_PORTION"]; ok {
					f, _ := strconv.ParseFloat(s, 64)
					cm["por"] = int(f*1000 + 0.5)
				}
				if s, ok := c.Data[constants.NvidiaVisibleDevices]; ok {
					cm["nvd"] = parseInts(s)
				}
			}
			c = &v1.ConfigMap{}
			if err := w.base.Get(ctx, client.ObjectKey{Namespace: podNS, Name: pre + "-0-evar"}, c); err == nil {
				cm["evar"] = 1
				if s, ok := c.Data[constants.NvidiaVisibleDevices]; ok {
					cm["nvd"] = parseInts(s)
				}
			}
		}
		br := &v1alpha2.BindRequest{}
		bm := map[string]any{"ex": 0, "ph": "", "fa": 0}
		if err := w.base.Get(ctx, client.ObjectKey{Namespace: podNS, Name: brName(p)}, br); err == nil {
			bm["ex"] = 1
			bm["ph"] = br.Status.Phase
			bm["fa"] = int(br.Status.FailedAttempts)
		}
		pods[p-1], cms[p-1], brs[p-1] = pm, cm, bm
	}
	res := make([]any, NG)
	rl := &v1.PodList{}
	if err := w.base.List(ctx, rl, client.InNamespace(resNS)); err != nil {
		fatal("list reservation pods: %v", err)
	}
	sort.Slice(rl.Items, func(i, j int) bool { return rl.Items[i].Name < rl.Items[j].Name })
	for g := 1; g <= NG; g++ {
		n, idx := 0, -1
		for _, rp := range rl.Items {
			if rp.Labels[constants.GPUGroup] != groupName(g) {
				continue
			}
			n++
			if n == 1 {
				if s, ok := rp.Annotations[idxAnn]; ok && s != "" {
					idx, _ = strconv.Atoi(s)
				}
			}
		}
		res[g-1] = map[string]any{"n": n, "idx": idx}
	}
	claim := map[string]any{"ex": 0, "rf": []int{0, 0, 0}, "al": 0}
	if o, err := w.cs.Tracker().Get(resourceapi.SchemeGroupVersion.WithResource("resourceclaims"), podNS, claimName); err == nil {
		c := o.(*resourceapi.ResourceClaim)
		claim["ex"] = 1
		rf := []int{0, 0, 0}
		for _, r := range c.Status.ReservedFor {
			if p := podIdx(r.Name); p >= 1 && p <= NP {
				rf[p-1] = 1
			}
		}
		claim["rf"] = rf
		if c.Status.Allocation != nil {
			claim["al"] = 1
		}
	}
	binds := make([]any, 0, len(w.binds))
	for _, b := range w.binds {
		binds = append(binds, map[string]any{"p": b.P, "node": b.Node, "dup": b.Dup})
	}
	return map[string]any{"pods": pods, "cm": cms, "br": brs, "res": res, "claim": claim, "binds": binds, "nidx": w.nidx}
}

func parseInts(s string) []int {
	out := []int{}
	if s == "" {
		return out
	}
	for _, f := range strings.Split(s, ",") {
		i, err := strconv.Atoi(strings.TrimSpace(f))
		if err != nil {
			i = -99
		}
		out = append(out, i)
	}
	return out
}

// ------------------------------------------------------------------------------------------
// controller
// ------------------------------------------------------------------------------------------

func (w *World) emit(ev string, kv map[string]any) {
	m := map[string]any{"ev": ev, "st": w.project()}
	for k, v := range kv {
		m[k] = v
	}
	w.tw.Emit(m)
}

func (w *World) recv() msg {
	select {
	case m := <-w.msgs:
		return m
	case <-time.After(detectSecs * time.Second):
		buf := make([]byte, 1<<16)
		n := runtime.Stack(buf, true)
		fatal("no progress for %d s: an actor neither reached a gate nor finished (deadlock in the code under test or in the harness)\n%s", detectSecs, buf[:n])
	}
	panic("unreachable")
}

// acquired: an actor whose lock acquisition was granted shows up again: it holds the mutex now.
func (w *World) acquired(a *actor) {
	if a.lockG != 0 {
		g := a.lockG
		if a.blockedOn != 0 {
			// a woken waiter; its message may overtake the releaser's "released" notification (sent after Unlock)
			if w.wakeDue[g] {
				delete(w.wakeDue, g)
			} else {
				w.wokeEarly[g] = true
			}
		}
		a.lockG, a.blockedOn = 0, 0
		w.emit("Lock", map[string]any{"a": a.A, "g": g})
	}
}

// handle processes one message of any live actor.
func (w *World) handle(m msg) {
	a := m.a
	if a.dead.Load() {
		return
	}
	switch m.typ {
	case mReq:
		w.acquired(a)
		a.pending = m.req
	case mReleased:
		w.acquired(a)
		if w.wokeEarly[m.g] {
			delete(w.wokeEarly, m.g) // the waiter this release woke has already shown up
			break
		}
		for _, b := range w.live {
			if b != a && b.blockedOn == m.g && !b.stuck {
				w.wakeDue[m.g] = true
			}
		}
	case mFinished:
		w.acquired(a)
		a.finished = true
		e, r := 0, 0
		if m.endErr {
			e = 1
		}
		if m.requeue {
			r = 1
		}
		w.emit("End", map[string]any{"a": a.A, "err": e, "requeue": r})
	default:
		fatal("unexpected message %d from actor %d", m.typ, a.A)
	}
}

// blockedInLock reports whether the goroutine sits in sync.(*Mutex).Lock called from LockMutexForGroup
// (goroutine dump: a stable condition - it stays blocked until another actor releases the mutex).
func blockedInLock(gid int64) bool {
	buf := make([]byte, 1<<18)
	n := runtime.Stack(buf, true)
	head := fmt.Sprintf("goroutine %d [", gid)
	for _, blk := range strings.Split(string(buf[:n]), "\n\n") {
		if !strings.HasPrefix(blk, head) {
			continue
		}
		first := blk
		if i := strings.IndexByte(blk, '\n'); i >= 0 {
			first = blk[:i]
		}
		return (strings.Contains(first, "sync.Mutex.Lock") || strings.Contains(first, "semacquire")) &&
			strings.Contains(blk, "LockMutexForGroup") && !strings.Contains(blk, "acquireWithRefcount")
	}
	return false
}

const (
	pollEvery  = 200 * time.Microsecond
	wakeSettle = 5 * time.Second // a released mutex wakes its waiter within microseconds; after this it counts as stuck
)

// settle runs actor a (and the waiters woken by the mutexes it releases) until a waits at its next gate, has
// ended, or is really blocked in the group mutex, and every woken waiter has reached its gate. No other actor
// runs meanwhile: all others are parked at gates, blocked in a mutex, or ended.
func (w *World) settle(a *actor) {
	deadline := time.Now().Add(detectSecs * time.Second)
	for a.pending == nil && !a.finished && a.blockedOn == 0 {
		select {
		case m := <-w.msgs:
			w.handle(m)
		case <-time.After(pollEvery):
			if a.lockG != 0 && blockedInLock(a.gid) {
				a.blockedOn = a.lockG
				w.emit("Wait", map[string]any{"a": a.A, "g": a.lockG})
			} else if time.Now().After(deadline) {
				buf := make([]byte, 1<<16)
				n := runtime.Stack(buf, true)
				fatal("no progress for %d s: actor %d neither reached a gate nor finished nor blocks in the group mutex\n%s", detectSecs, a.A, buf[:n])
			}
		}
	}
	for g := range w.wakeDue {
		var waiters []*actor
		for _, b := range w.live {
			if b.blockedOn == g && !b.stuck {
				waiters = append(waiters, b)
			}
		}
		if len(waiters) == 0 {
			delete(w.wakeDue, g)
			continue
		}
		woke := func() bool {
			for _, b := range waiters {
				if b.blockedOn == 0 {
					return true
				}
			}
			return false
		}
		until := time.Now().Add(wakeSettle)
		for !woke() && time.Now().Before(until) {
			select {
			case m := <-w.msgs:
				w.handle(m)
			case <-time.After(pollEvery):
			}
		}
		delete(w.wakeDue, g) // (a waiter that showed up has already cleared it)
		if !woke() {
			if os.Getenv("VERIF_BINDER_DEBUG") != "" {
				buf := make([]byte, 1<<18)
				n := runtime.Stack(buf, true)
				fmt.Fprintf(os.Stderr, "wake of group %d timed out; waiters %v\n%s\n", g, len(waiters), buf[:n])
			}
			for _, b := range waiters {
				b.stuck = true // blocked on a mutex nobody will ever unlock (lost mutex)
			}
		}
	}
}

func (w *World) start(a *actor) {
	a.started = true
	inst := w.inst
	ctx := context.Background()
	var fn func() (bool, bool)
	q := workqueue.NewTypedRateLimitingQueue(workqueue.DefaultTypedControllerRateLimiter[reconcile.Request]())
	switch a.T {
	case "rec":
		fn = func() (bool, bool) {
			r, err := inst.rec.Reconcile(ctx, ctrl.Request{NamespacedName: client.ObjectKey{Namespace: podNS, Name: brName(a.P)}})
			return err != nil, r.RequeueAfter != 0
		}
	case "sync":
		fn = func() (bool, bool) { return inst.rrs.Sync(ctx) != nil, false }
	case "syncnode":
		fn = func() (bool, bool) { return inst.rrs.SyncForNode(ctx, nodeName) != nil, false }
	case "hdl":
		switch a.E {
		case "PodDeleted":
			pod := &v1.Pod{}
			if err := w.base.Get(ctx, client.ObjectKey{Namespace: podNS, Name: podName(a.P)}, pod); err != nil {
				w.skip(a) // the schedule's event does not apply to the real store (e.g. the pod is already gone)
				return
			}
			if pod.DeletionTimestamp != nil {
				// the end of a graceful termination: the finalizer goes, the fake client removes the object
				pod.Finalizers = nil
				if err := w.base.Update(ctx, pod); err != nil {
					fatal("PodDeleted (finalizer): %v", err)
				}
			} else if err := w.base.Delete(ctx, pod); err != nil {
				fatal("PodDeleted: %v", err)
			}
			fn = func() (bool, bool) {
				inst.podRec.VerifEventHandlers().DeleteFunc(ctx, event.DeleteEvent{Object: pod}, q)
				return false, false
			}
		case "PodCompleted":
			old := &v1.Pod{}
			if err := w.base.Get(ctx, client.ObjectKey{Namespace: podNS, Name: podName(a.P)}, old); err != nil || old.DeletionTimestamp != nil ||
				!(old.Status.Phase == v1.PodRunning || (old.Status.Phase == v1.PodPending && old.Spec.NodeName != "")) {
				w.skip(a)
				return
			}
			upd := old.DeepCopy()
			upd.Status.Phase = v1.PodSucceeded
			if err := w.base.Status().Update(ctx, upd); err != nil {
				fatal("PodCompleted: %v", err)
			}
			fn = func() (bool, bool) {
				inst.podRec.VerifEventHandlers().UpdateFunc(ctx, event.UpdateEvent{ObjectOld: old, ObjectNew: upd}, q)
				return false, false
			}
		case "BRDeleted":
			br := &v1alpha2.BindRequest{}
			if err := w.base.Get(ctx, client.ObjectKey{Namespace: podNS, Name: brName(a.P)}, br); err != nil {
				w.skip(a)
				return
			}
			if err := w.base.Delete(ctx, br); err != nil {
				fatal("BRDeleted: %v", err)
			}
			fn = func() (bool, bool) {
				inst.rec.VerifEventHandlers().DeleteFunc(ctx, event.DeleteEvent{Object: br}, q)
				return false, false
			}
		default:
			fatal("unknown handler event %q", a.E)
		}
	default:
		fatal("unknown actor type %q", a.T)
	}
	w.emit("Start", map[string]any{"a": a.A, "t": a.T, "p": a.P, "e": a.E})
	ready := make(chan struct{})
	go func() {
		a.gid = goid()
		w.actors.Store(a.gid, a)
		close(ready)
		defer w.actors.Delete(a.gid)
		e, r := fn()
		q.ShutDown()
		if a.dead.Load() {
			return
		}
		w.msgs <- msg{typ: mFinished, a: a, endErr: e, requeue: r}
	}()
	<-ready
	w.settle(a)
}

// skip: an event of the schedule that is not applicable in the real store is dropped (counted)
func (w *World) skip(a *actor) {
	a.started, a.finished = true, true
	w.desync++
}

func (w *World) grantable(a *actor) bool { return !a.finished && a.pending != nil }

// step grants the pending request of actor a. Returns true when the binder process crashed.
func (w *World) step(a *actor, faults []Fault, all []*actor) bool {
	req := a.pending
	a.pending = nil
	if req.isLock {
		// the actor goes on into the real LockMutexForGroup: it either acquires the mutex (Lock event when it shows
		// up again) or really blocks in it (Wait event; Lock event when a release has woken it)
		a.lockG = req.g
		req.reply <- "ok"
		w.settle(a)
		return false
	}
	a.k++
	res := "ok"
	for _, f := range faults {
		if f.A == a.I && f.K == a.k {
			res = f.F
		}
	}
	req.reply <- res
	m := w.recv()
	for m.a != a || m.typ != mApplied {
		if m.a == a {
			fatal("expected applied from actor %d, got %d", a.A, m.typ)
		}
		w.handle(m) // a late waker
		m = w.recv()
	}
	ne := 0
	if m.natErr {
		ne = 1
	}
	rec := map[string]any{"a": a.A, "k": a.k, "verb": req.verb, "kind": req.kind, "g": req.g, "pt": req.pt, "res": res, "err": ne}
	w.calllog = append(w.calllog, rec)
	w.emit("Call", rec)
	if res == "crash" {
		for _, b := range all {
			b.dead.Store(true)
		}
		req.reply <- "dead"
		for _, b := range all {
			if b != a && b.pending != nil {
				b.pending.reply <- "dead"
				b.pending = nil
			}
		}
		return true
	}
	w.settle(a)
	return false
}

func (w *World) runSegment(st Step) {
	byID := map[int]*actor{}
	var all []*actor
	for _, ac := range st.Acts {
		if ac.I == 0 {
			ac.I = ac.A
		}
		a := &actor{Act: ac}
		byID[ac.I] = a
		all = append(all, a)
	}
	w.live = all
	crashed := false
	doOne := func(a *actor) {
		if !a.started {
			for _, b := range all {
				if b != a && b.A == a.A && b.started && !b.finished {
					w.desync++ // one instance per model actor at a time
					return
				}
			}
			w.start(a)
			return
		}
		if !w.grantable(a) {
			w.desync++
			return
		}
		crashed = w.step(a, st.Faults, all)
	}
	for _, id := range st.Order {
		if crashed {
			break
		}
		if id < 0 {
			if -id-1 >= len(st.Envs) {
				fatal("order names unknown env %d", id)
			}
			w.envStep(st.Envs[-id-1])
			continue
		}
		a := byID[id]
		if a == nil {
			fatal("order names unknown actor %d", id)
		}
		doOne(a)
	}
	startable := func(a *actor) bool {
		for _, b := range all {
			if b != a && b.A == a.A && b.started && !b.finished {
				return false
			}
		}
		return true
	}
	for !crashed {
		var next *actor
		busy := false
		for _, a := range all {
			if !a.started {
				if startable(a) {
					next = a
					break
				}
				busy = true
				continue
			}
			if !a.finished {
				busy = true
				if w.grantable(a) {
					next = a
					break
				}
			}
		}
		if next == nil {
			if busy {
				// every unfinished actor is blocked in a group mutex nobody will release: the process is wedged;
				// it is abandoned like a crashed one (the trace says so)
				for _, b := range all {
					b.dead.Store(true)
				}
				w.newInstance()
				w.emit("Env", map[string]any{"e": "Stuck", "p": 0, "g": 0})
			}
			break
		}
		doOne(next)
	}
	w.live = nil
	if crashed {
		w.newInstance()
		w.emit("Env", map[string]any{"e": "Restart", "p": 0, "g": 0})
	}
}

func (w *World) envStep(st Step) {
	ctx := context.Background()
	switch st.E {
	case "PodRunning":
		pod := &v1.Pod{}
		if err := w.base.Get(ctx, client.ObjectKey{Namespace: podNS, Name: podName(st.P)}, pod); err != nil ||
			pod.Status.Phase != v1.PodPending || pod.Spec.NodeName == "" {
			w.desync++
			return
		}
		pod.Status.Phase = v1.PodRunning
		if err := w.base.Status().Update(ctx, pod); err != nil {
			fatal("PodRunning: %v", err)
		}
	case "PodTerminating":
		// graceful deletion: a finalizer keeps the object, the fake client sets the deletion timestamp
		pod := &v1.Pod{}
		if err := w.base.Get(ctx, client.ObjectKey{Namespace: podNS, Name: podName(st.P)}, pod); err != nil ||
			pod.Status.Phase != v1.PodRunning || pod.DeletionTimestamp != nil {
			w.desync++
			return
		}
		pod.Finalizers = append(pod.Finalizers, termFinalizer)
		if err := w.base.Update(ctx, pod); err != nil {
			fatal("PodTerminating (finalizer): %v", err)
		}
		if err := w.base.Delete(ctx, pod); err != nil {
			fatal("PodTerminating: %v", err)
		}
	case "Annotate":
		rl := &v1.PodList{}
		if err := w.base.List(ctx, rl, client.InNamespace(resNS), client.MatchingLabels{constants.GPUGroup: groupName(st.G)}); err != nil {
			fatal("Annotate: %v", err)
		}
		sort.Slice(rl.Items, func(i, j int) bool { return rl.Items[i].Name < rl.Items[j].Name })
		for _, rp := range rl.Items {
			w.annotateReservation(rp.Name)
		}
	case "Restart":
		w.newInstance()
	default:
		fatal("unknown env event %q", st.E)
	}
	w.emit("Env", map[string]any{"e": st.E, "p": st.P, "g": st.G})
}

func runSchedule(s Schedule, scheme *k8sruntime.Scheme, tw *tracefmt.Writer) *World {
	w := newWorld(s.Cfg, scheme, tw)
	theWorld.Store(w)
	sj, _ := json.Marshal(s)
	w.emit("Scenario", map[string]any{"id": s.ID, "sig": s.Sig, "class": s.Class, "sched": string(sj),
		"cfg": map[string]any{"kinds": s.Cfg.Kinds, "grps": s.Cfg.Grps}})
	for _, st := range s.Steps {
		switch st.N {
		case "run":
			w.runSegment(st)
		case "env":
			w.envStep(st)
		case "check":
			w.emit("Check", nil)
		case "final":
			w.emit("Final", nil)
		default:
			fatal("unknown step %q", st.N)
		}
	}
	theWorld.Store(nil)
	return w
}

// ------------------------------------------------------------------------------------------
// configurations, dry run, random schedules
// ------------------------------------------------------------------------------------------

var kindCfgs = map[string]Cfg{
	"whole":  {Kinds: []string{"whole", "none", "none"}, Grps: [][]int{{}, {}, {}}},
	"fracn":  {Kinds: []string{"frac", "none", "none"}, Grps: [][]int{{1}, {}, {}}},
	"fracx":  {Kinds: []string{"frac", "none", "cons"}, Grps: [][]int{{1}, {}, {1}}},
	"multi":  {Kinds: []string{"multi", "none", "cons"}, Grps: [][]int{{1, 2}, {}, {1}}},
	"dra":    {Kinds: []string{"dra", "none", "none"}, Grps: [][]int{{}, {}, {}}},
	"multin": {Kinds: []string{"multi", "none", "none"}, Grps: [][]int{{1, 2}, {}, {}}},
	// two consumers of the same group (concurrency, C17)
	"pairn": {Kinds: []string{"frac", "frac", "none"}, Grps: [][]int{{1}, {1}, {}}},
	"pairx": {Kinds: []string{"frac", "frac", "cons"}, Grps: [][]int{{1}, {1}, {1}}},
	"pairm": {Kinds: []string{"multi", "frac", "cons"}, Grps: [][]int{{1, 2}, {2}, {1}}},
}

var kindOrder = []string{"whole", "fracn", "fracx", "multi", "dra", "multin", "pairn", "pairx", "pairm"}

const nSingleKinds = 6

func rec(p int) Step { return Step{N: "run", Acts: []Act{{A: p, T: "rec", P: p}}} }

func dryRun(scheme *k8sruntime.Scheme) {
	out := map[string]any{}
	for _, k := range kindOrder[:nSingleKinds] {
		tw, _ := tracefmt.Create(os.DevNull)
		w := runSchedule(Schedule{ID: "dry-" + k, Cfg: kindCfgs[k], Steps: []Step{rec(1)}}, scheme, tw)
		calls := []string{}
		for _, c := range w.calllog {
			calls = append(calls, fmt.Sprintf("%s/%s", c["verb"], c["kind"]))
		}
		out[k] = map[string]any{"K": len(calls), "calls": calls}
		tw.Close()
	}
	b, _ := json.Marshal(out)
	fmt.Println(string(b))
}

func randomSchedule(r *rand.Rand, i int, kmax map[string]int) Schedule {
	kinds := kindOrder
	kind := kinds[r.Intn(len(kinds))]
	cfg := kindCfgs[kind]
	s := Schedule{ID: fmt.Sprintf("rnd-%d", i), Class: "random", Cfg: cfg}
	two := cfg.Kinds[1] != "none"
	var sigFaults []string
	alive := map[int]bool{1: true, 2: two, 3: cfg.Kinds[2] != "none"}
	nFaulty := 1 + r.Intn(2)
	for round := 0; round < nFaulty; round++ {
		// optional environment event before the attempt
		if r.Intn(3) == 0 {
			switch c := r.Intn(4); {
			case c == 0 && alive[3]:
				s.Steps = append(s.Steps, Step{N: "run", Acts: []Act{{A: 4, T: "hdl", E: "PodCompleted", P: 3}}})
				alive[3] = false
			case c == 1 && alive[3]:
				s.Steps = append(s.Steps, Step{N: "run", Acts: []Act{{A: 4, T: "hdl", E: "PodDeleted", P: 3}}})
				alive[3] = false
			case c == 2:
				s.Steps = append(s.Steps, Step{N: "run", Acts: []Act{{A: 3, T: "syncnode"}}})
			case c == 3:
				s.Steps = append(s.Steps, Step{N: "env", E: "Annotate", G: 1})
			}
		}
		st := Step{N: "run"}
		st.Acts = append(st.Acts, Act{A: 1, T: "rec", P: 1})
		if two {
			st.Acts = append(st.Acts, Act{A: 2, T: "rec", P: 2})
			if r.Intn(3) == 0 && alive[3] {
				st.Acts = append(st.Acts, Act{A: 4, T: "hdl", E: []string{"PodCompleted", "PodDeleted"}[r.Intn(2)], P: 3})
				alive[3] = false
			}
			n := 20 + r.Intn(80)
			for j := 0; j < n; j++ {
				st.Order = append(st.Order, st.Acts[r.Intn(len(st.Acts))].A)
			}
		}
		nf := r.Intn(3)
		for j := 0; j < nf; j++ {
			a := 1
			if two && r.Intn(2) == 0 {
				a = 2
			}
			km := kmax[kind]
			if km == 0 {
				km = 40
			}
			f := Fault{A: a, K: 1 + r.Intn(km), F: []string{"fail", "crash"}[r.Intn(2)]}
			st.Faults = append(st.Faults, f)
			sigFaults = append(sigFaults, fmt.Sprintf("%s@%d", f.F, f.K))
		}
		s.Steps = append(s.Steps, st)
		s.Steps = append(s.Steps, Step{N: "run", Acts: []Act{{A: 3, T: "sync"}}}, Step{N: "check"})
	}
	// recovery: fault-free attempts, each followed by a sync
	for round := 0; round < 3; round++ {
		st := Step{N: "run", Acts: []Act{{A: 1, T: "rec", P: 1}}}
		if two {
			st.Acts = append(st.Acts, Act{A: 2, T: "rec", P: 2})
		}
		s.Steps = append(s.Steps, st, Step{N: "run", Acts: []Act{{A: 3, T: "syncnode"}}}, Step{N: "check"})
	}
	s.Steps = append(s.Steps, Step{N: "final"})
	s.Sig = fmt.Sprintf("kind=%s fault=random[%s]", kind, strings.Join(sigFaults, ","))
	return s
}

func main() {
	in := flag.String("in", "", "ndjson schedules")
	out := flag.String("out", "", "ndjson trace")
	nrand := flag.Int("random", 0, "number of random schedules")
	seed := flag.Int64("seed", 1, "seed")
	dry := flag.Bool("dry", false, "print the call sequence of a fault-free reconcile per pod kind")
	kmaxs := flag.String("kmax", "", "json map kind -> K (for -random)")
	flag.Parse()

	ctrl.SetLogger(logr.Discard())
	group_mutex.VerifHook = lockHook
	scheme := k8sruntime.NewScheme()
	if err := v1.AddToScheme(scheme); err != nil {
		fatal("%v", err)
	}
	if err := kaischeme.AddToScheme(scheme); err != nil {
		fatal("%v", err)
	}
	if *dry {
		dryRun(scheme)
		return
	}
	if *out == "" {
		fatal("-out required")
	}
	tw, err := tracefmt.Create(*out)
	if err != nil {
		fatal("%v", err)
	}
	n, desync := 0, 0
	if *in != "" {
		f, err := os.Open(*in)
		if err != nil {
			fatal("%v", err)
		}
		sc := bufio.NewScanner(f)
		sc.Buffer(make([]byte, 1<<20), 1<<26)
		for sc.Scan() {
			line := bytes.TrimSpace(sc.Bytes())
			if len(line) == 0 {
				continue
			}
			var s Schedule
			if err := json.Unmarshal(line, &s); err != nil {
				fatal("bad schedule: %v", err)
			}
			w := runSchedule(s, scheme, tw)
			desync += w.desync
			n++
		}
		f.Close()
	}
	if *nrand > 0 {
		kmax := map[string]int{}
		if *kmaxs != "" {
			if err := json.Unmarshal([]byte(*kmaxs), &kmax); err != nil {
				fatal("bad -kmax: %v", err)
			}
		}
		r := rand.New(rand.NewSource(*seed))
		for i := 0; i < *nrand; i++ {
			w := runSchedule(randomSchedule(r, i, kmax), scheme, tw)
			desync += w.desync
			n++
		}
	}
	if err := tw.Close(); err != nil {
		fatal("%v", err)
	}
	fmt.Printf("{\"schedules\":%d,\"events\":%d,\"skipped_order_entries\":%d}\n", n, tw.Count(), desync)
}
