// Command fairshare drives the real resource_division.SetResourcesShare (C09).
//
// Input: ndjson scenarios (one per line, as exported by TLC from spec/FairShare.tla, or generated
// here with -random): {"id","total","kn","kd","queues":[{"des","lim","w","prio","req","use"}]}
// in 1/1000 units (-1 = unlimited). Output: ndjson trace, per scenario a Scenario line and a
// Divide line with the fair shares computed by the real code (first run) and the distinct results
// of further runs with permuted map insertion order (Go map iteration order is random per run).
package main

import (
	"bufio"
	"encoding/json"
	"flag"
	"fmt"
	"math"
	"math/rand"
	"os"
	"time"

	metav1 "k8s.io/apimachinery/pkg/apis/meta/v1"

	"github.com/NVIDIA/KAI-scheduler/pkg/scheduler/api/common_info"
	"github.com/NVIDIA/KAI-scheduler/pkg/scheduler/log"
	"github.com/NVIDIA/KAI-scheduler/pkg/scheduler/plugins/proportion/resource_division"
	rs "github.com/NVIDIA/KAI-scheduler/pkg/scheduler/plugins/proportion/resource_share"

	"verif/harness/internal/tracefmt"
)

const scale = 1000.0

type queue struct {
	Des  int `json:"des"`
	Lim  int `json:"lim"`
	W    int `json:"w"`
	Prio int `json:"prio"`
	Req  int `json:"req"`
	Use  int `json:"use"`
}

type scenario struct {
	ID     string  `json:"id"`
	Total  int     `json:"total"`
	Kn     int     `json:"kn"`
	Kd     int     `json:"kd"`
	Queues []queue `json:"queues"`
	// hierarchical scenarios (random generator only): children of queue i (1-based) are divided
	// with total := fair share of i, exactly as proportion.setFairShareForQueues recurses.
	Children map[string][]queue `json:"children,omitempty"`
}

func unit(v int) float64 {
	if v == -1 {
		return -1
	}
	return float64(v) / scale
}

var epoch = time.Date(2024, 1, 1, 0, 0, 0, 0, time.UTC)

func build(qs []queue, order []int, resource rs.ResourceName) map[common_info.QueueID]*rs.QueueAttributes {
	m := map[common_info.QueueID]*rs.QueueAttributes{}
	for _, i := range order {
		q := qs[i]
		id := common_info.QueueID(fmt.Sprintf("q%d", i+1))
		qa := &rs.QueueAttributes{UID: id, Name: string(id), Priority: q.Prio,
			CreationTimestamp: metav1.Time{Time: epoch.Add(time.Duration(i) * time.Second)}}
		// the other resources stay zero-valued: nothing requested, nothing to divide
		share := qa.ResourceShare(resource)
		share.Deserved = unit(q.Des)
		share.MaxAllowed = unit(q.Lim)
		share.OverQuotaWeight = float64(q.W)
		share.Request = unit(q.Req)
		share.Usage = float64(q.Use) / scale
		m[id] = qa
	}
	return m
}

func divide(total int, kn, kd int, qs []queue, r *rand.Rand, runs int, resource rs.ResourceName) (first []int, alts [][]int, wants []int, altw [][]int, bad string) {
	n := len(qs)
	seen := map[string]bool{}
	for run := 0; run < runs; run++ {
		order := r.Perm(n)
		if run == 0 {
			for i := range order {
				order[i] = i
			}
		}
		m := build(qs, order, resource)
		tot := rs.ResourceQuantities{rs.CpuResource: 0, rs.MemoryResource: 0, rs.GpuResource: 0}
		tot[resource] = float64(total) / scale
		resource_division.SetResourcesShare(tot, float64(kn)/float64(kd), m)
		out := make([]int, n)
		wf := make([]int, n)
		for i := 0; i < n; i++ {
			v := m[common_info.QueueID(fmt.Sprintf("q%d", i+1))].ResourceShare(resource).FairShare
			if math.IsNaN(v) || math.IsInf(v, 0) || math.Abs(v*scale) > 2e9 {
				bad = fmt.Sprintf("non-finite or huge fair share %v for queue %d", v, i+1)
				v = -7777
			}
			out[i] = int(math.Round(v * scale))
			sh := m[common_info.QueueID(fmt.Sprintf("q%d", i+1))].ResourceShare(resource)
			if sh.GetRequestableShare()-sh.FairShare > 0 { // exact, on the real floats
				wf[i] = 1
			}
		}
		key := fmt.Sprint(out)
		if run == 0 {
			first = out
			wants = wf
			seen[key] = true
		} else if !seen[key] {
			seen[key] = true
			alts = append(alts, out)
			altw = append(altw, wf)
		}
	}
	return
}

func randQueue(r *rand.Rand, maxUnits int, frac bool) queue {
	pick := func(vals ...int) int { return vals[r.Intn(len(vals))] }
	amt := func() int {
		v := r.Intn(maxUnits+1) * 1000
		if frac && r.Intn(3) == 0 {
			v += pick(100, 250, 500, 333, 750, 1)
		}
		return v
	}
	q := queue{Des: amt(), Lim: -1, W: pick(0, 1, 1, 2, 3, 5, 10), Prio: pick(0, 0, 1, 2), Req: amt(), Use: 0}
	switch r.Intn(5) {
	case 0:
		q.Des = -1
	case 1:
		q.Des = 0
	}
	if r.Intn(3) == 0 {
		q.Lim = amt()
	}
	if r.Intn(3) == 0 {
		q.Use = pick(0, 100, 250, 500, 900, 1000)
	}
	if r.Intn(6) == 0 {
		q.Req = 0
	}
	return q
}

func main() {
	in := flag.String("in", "", "scenario ndjson (from TLC)")
	out := flag.String("out", "", "trace ndjson")
	random := flag.Int("random", 0, "number of random scenarios to generate instead of -in")
	seed := flag.Int64("seed", 1, "seed")
	runs := flag.Int("runs", 4, "runs per scenario with permuted insertion order")
	flag.Parse()
	_ = log.InitLoggers(0)
	w, err := tracefmt.Create(*out)
	if err != nil {
		panic(err)
	}
	r := rand.New(rand.NewSource(*seed))
	resources := []rs.ResourceName{rs.GpuResource, rs.CpuResource, rs.MemoryResource}
	n := 0
	emit := func(sc scenario, resource rs.ResourceName) {
		first, alts, wants, altw, bad := divide(sc.Total, sc.Kn, sc.Kd, sc.Queues, r, *runs, resource)
		w.Emit(map[string]any{"ev": "Scenario", "id": sc.ID, "total": sc.Total, "kn": sc.Kn, "kd": sc.Kd, "queues": sc.Queues, "res": string(resource)})
		if alts == nil {
			alts, altw = [][]int{}, [][]int{}
		}
		w.Emit(map[string]any{"ev": "Divide", "fs": first, "alts": alts, "wants": wants, "altw": altw, "bad": bad})
		n++
		// children divide the parent's fair share
		for k, kids := range sc.Children {
			var pi int
			fmt.Sscanf(k, "%d", &pi)
			if pi < 1 || pi > len(first) || first[pi-1] < 0 {
				continue
			}
			child := scenario{ID: sc.ID + "/" + k, Total: first[pi-1], Kn: sc.Kn, Kd: sc.Kd, Queues: kids}
			f2, a2, w2, aw2, b2 := divide(child.Total, child.Kn, child.Kd, child.Queues, r, *runs, resource)
			w.Emit(map[string]any{"ev": "Scenario", "id": child.ID, "total": child.Total, "kn": child.Kn, "kd": child.Kd, "queues": child.Queues, "res": string(resource)})
			if a2 == nil {
				a2, aw2 = [][]int{}, [][]int{}
			}
			w.Emit(map[string]any{"ev": "Divide", "fs": f2, "alts": a2, "wants": w2, "altw": aw2, "bad": b2})
			n++
		}
	}
	if *random > 0 {
		for i := 0; i < *random; i++ {
			maxUnits := []int{2, 4, 8, 20, 100, 1000}[r.Intn(6)]
			nq := 1 + r.Intn(6)
			if r.Intn(10) == 0 {
				nq = 7 + r.Intn(2)
			}
			frac := r.Intn(2) == 0
			sc := scenario{ID: fmt.Sprintf("rnd-%d-%d", *seed, i), Kn: []int{0, 0, 1, 1, 2, 5, 10}[r.Intn(7)], Kd: []int{1, 1, 2, 10}[r.Intn(4)]}
			sc.Total = r.Intn(maxUnits*nq+1) * 1000
			if frac && r.Intn(3) == 0 {
				sc.Total += []int{500, 250, 100, 900}[r.Intn(4)]
			}
			for j := 0; j < nq; j++ {
				sc.Queues = append(sc.Queues, randQueue(r, maxUnits, frac))
			}
			if r.Intn(3) == 0 {
				sc.Children = map[string][]queue{}
				pi := 1 + r.Intn(nq)
				var kids []queue
				for j := 0; j < 1+r.Intn(4); j++ {
					kids = append(kids, randQueue(r, maxUnits, frac))
				}
				sc.Children[fmt.Sprint(pi)] = kids
			}
			emit(sc, resources[r.Intn(3)])
		}
	} else {
		f, err := os.Open(*in)
		if err != nil {
			panic(err)
		}
		scn := bufio.NewScanner(f)
		scn.Buffer(make([]byte, 1<<20), 1<<26)
		i := 0
		for scn.Scan() {
			var sc scenario
			if err := json.Unmarshal(scn.Bytes(), &sc); err != nil {
				panic(fmt.Sprintf("line %d: %v", i+1, err))
			}
			if sc.ID == "" {
				sc.ID = fmt.Sprintf("grid-%d", i)
			}
			emit(sc, rs.GpuResource)
			i++
		}
	}
	if err := w.Close(); err != nil {
		panic(err)
	}
	fmt.Printf("{\"scenarios\": %d}\n", n)
}
