package main

// The input catalogue of C18: for every GroupVersionKind registered in the pod-grouper plugins hub
// a minimal valid owner object (chain) with n sibling pods, together with the *documented* grouping
// function of that kind: which pods share a PodGroup (groupOf) and the derived fields the PodGroup
// must carry (name, minMember, priority class, preemptibility, sub-groups, owner, queue and
// node-pool label at creation). The expectation is written here independently of the grouper code
// (from docs/developer/pod-grouper.md and the plugins' doc comments); the real PodReconciler is
// judged against it by TLC (spec/GrouperTrace.tla).

import (
	"fmt"
	"strings"

	v1 "k8s.io/api/core/v1"
	metav1 "k8s.io/apimachinery/pkg/apis/meta/v1"
	"k8s.io/apimachinery/pkg/apis/meta/v1/unstructured"
	"k8s.io/apimachinery/pkg/types"
	"sigs.k8s.io/controller-runtime/pkg/client"
)

const (
	ns            = "ns"
	schedulerName = "kai-scheduler"
	nodePoolKey   = "kai.scheduler/node-pool"
	queueLabelKey = "kai.scheduler/queue"
)

type expGroup struct {
	Name     string `json:"name"`
	Min      int    `json:"min"`
	Prio     string `json:"prio"`
	Preempt  string `json:"preempt"`
	Sub      string `json:"sub"`
	Owner    string `json:"owner"`
	Topo     string `json:"topo"`
	Queue    string `json:"queue"`
	NodePool string `json:"nodepool"`
}

type workload struct {
	objs    []client.Object
	pods    []*v1.Pod
	groupOf []int
	exp     []expGroup
	expSub  []string
	// meta: the object every PodGroup of the workload inherits labels / annotations from (nil: the
	// pods themselves, for which OwnerChange schedules are not run)
	meta *unstructured.Unstructured
	// metaShadowsTop: this install carries the scheduling labels on `meta` AND on the top owner, and the kind
	// documents that meta's labels win while the top owner's are the fallback (grove: "metadata propagation from
	// PodCliqueSet to PodGang", grove_grouper.go). Removing a label from meta then uncovers the top owner's value.
	metaShadowsTop bool
}

type entry struct {
	id    string
	gvks  []string // hub keys "group/version/Kind" exercised by this entry
	build func(n int, labelled bool) *workload
}

// expOwner: the two derived fields that follow a label of the metadata owner which the user may set, change
// and remove while the workload runs, tabulated by the label's state: index 0 = label absent, 1 = the value a
// labelled install carries (labelTop: non-preemptible / build), 2 = the other legal value (preemptible /
// inference).
type expOwner struct {
	Pe [3]string `json:"pe"` // spec.preemptibility by state of kai.scheduler/preemptibility
	Pr [3]string `json:"pr"` // spec.priorityClassName by state of priorityClassName
}

// ownerExpectations derives the table from the catalogue's two documented installs of the same workload
// (plain = no scheduling labels, labelled = labelTop on the metadata owner), independently of the grouper
// code and of any store: a PodGroup must look like a FRESH grouping of the workload as it is now, so
//   - label absent  -> what the plain install documents (the kind's default priority class, no preemptibility);
//     if the install carries the same labels on the top owner as documented fallback (metaShadowsTop): the
//     fallback's value, which is the labelled install's;
//   - label state 1 -> what the labelled install documents;
//   - label state 2 -> the label's value itself if the labelled install shows that the kind takes the field
//     from this label (labelled expectation = the label's value), otherwise what the labelled install
//     documents (the kind ignores the label for this field: knative preemptibility, InteractiveWorkload).
//
// Each label controls exactly one field (docs/developer/pod-grouper.md, default_grouper.go doc comments), the
// labelled install differs from the plain one in nothing else that these two fields depend on.
func ownerExpectations(plain, labelled *workload, installed *workload) []expOwner {
	out := make([]expOwner, len(plain.exp))
	for g := range plain.exp {
		pl, lb := plain.exp[g], labelled.exp[g]
		if installed.metaShadowsTop {
			pl = lb
		}
		pe2, pr2 := lb.Preempt, lb.Prio
		if lb.Preempt == "non-preemptible" {
			pe2 = "preemptible"
		}
		if lb.Prio == "build" {
			pr2 = "inference"
		}
		out[g] = expOwner{Pe: [3]string{pl.Preempt, lb.Preempt, pe2}, Pr: [3]string{pl.Prio, lb.Prio, pr2}}
	}
	return out
}

// ---- object builders -------------------------------------------------------------------------

func uidOf(kind, name string) types.UID {
	return types.UID("uid-" + strings.ToLower(kind) + "-" + name)
}

func obj(apiVersion, kind, name string, parent *unstructured.Unstructured, spec map[string]any) *unstructured.Unstructured {
	u := &unstructured.Unstructured{Object: map[string]any{}}
	u.SetAPIVersion(apiVersion)
	u.SetKind(kind)
	u.SetName(name)
	u.SetNamespace(ns)
	u.SetUID(uidOf(kind, name))
	if parent != nil {
		u.SetOwnerReferences([]metav1.OwnerReference{refOf(parent)})
	}
	if spec != nil {
		u.Object["spec"] = spec
	}
	return u
}

func refOf(o *unstructured.Unstructured) metav1.OwnerReference {
	return metav1.OwnerReference{APIVersion: o.GetAPIVersion(), Kind: o.GetKind(), Name: o.GetName(), UID: o.GetUID()}
}

func mkPod(name string, owner *unstructured.Unstructured, labels map[string]string, ann map[string]string, labelled bool) *v1.Pod {
	p := &v1.Pod{
		ObjectMeta: metav1.ObjectMeta{Name: name, Namespace: ns, UID: uidOf("Pod", name), Labels: map[string]string{}, Annotations: map[string]string{}},
		Spec: v1.PodSpec{SchedulerName: schedulerName, Containers: []v1.Container{{Name: "c", Image: "i"}}},
	}
	for k, v := range labels {
		p.Labels[k] = v
	}
	for k, v := range ann {
		p.Annotations[k] = v
	}
	if labelled {
		p.Labels[nodePoolKey] = "pool-a"
	}
	if owner != nil {
		p.OwnerReferences = []metav1.OwnerReference{refOf(owner)}
	}
	return p
}

// labelTop puts the user-facing scheduling labels on the object users label: queue, priority
// class, preemptibility.
func labelTop(o *unstructured.Unstructured, labelled bool) {
	if !labelled {
		return
	}
	l := o.GetLabels()
	if l == nil {
		l = map[string]string{}
	}
	l[queueLabelKey] = "team-a"
	l["priorityClassName"] = "build"
	l["kai.scheduler/preemptibility"] = "non-preemptible"
	o.SetLabels(l)
}

func podUnstructuredOwner(p *v1.Pod) string { return "v1/Pod/" + p.Name + "/" + string(p.UID) }
func ownerStr(o *unstructured.Unstructured) string {
	return o.GetAPIVersion() + "/" + o.GetKind() + "/" + o.GetName() + "/" + string(o.GetUID())
}

// defaults: what the default grouper documents for a PodGroup of `owner`.
func defaults(owner *unstructured.Unstructured, prio string, labelled bool) expGroup {
	e := expGroup{
		Name: fmt.Sprintf("pg-%s-%s", owner.GetName(), owner.GetUID()), Min: 1, Prio: prio, Owner: ownerStr(owner),
		Queue: "default-queue",
	}
	if labelled {
		e.Queue, e.Prio, e.Preempt, e.NodePool = "team-a", "build", "non-preemptible", "pool-a"
	}
	return e
}

func ones(n int) []int {
	r := make([]int, n)
	for i := range r {
		r[i] = 1
	}
	return r
}

func iota1(n int) []int {
	r := make([]int, n)
	for i := range r {
		r[i] = i + 1
	}
	return r
}

func blanks(n int) []string { return make([]string, n) }

func gvkKey(apiVersion, kind string) string {
	g, v := "", apiVersion
	if i := strings.Index(apiVersion, "/"); i >= 0 {
		g, v = apiVersion[:i], apiVersion[i+1:]
	}
	return g + "/" + v + "/" + kind
}

// ---- generic shapes --------------------------------------------------------------------------

// sharedDefault: top owner of (apiVersion, kind), optional intermediate chain, one PodGroup named
// after the top owner, min 1.
func sharedDefault(id, apiVersion, kind, prio string, mid ...[2]string) entry {
	return entry{id: id, gvks: []string{gvkKey(apiVersion, kind)}, build: func(n int, labelled bool) *workload {
		top := obj(apiVersion, kind, "w", nil, map[string]any{})
		labelTop(top, labelled)
		w := &workload{objs: []client.Object{top}, meta: top}
		last := top
		for i, m := range mid {
			o := obj(m[0], m[1], fmt.Sprintf("w-m%d", i), last, map[string]any{})
			w.objs = append(w.objs, o)
			last = o
		}
		for i := 0; i < n; i++ {
			w.pods = append(w.pods, mkPod(fmt.Sprintf("w-%d", i), last, nil, nil, labelled))
		}
		w.groupOf, w.exp, w.expSub = ones(n), []expGroup{defaults(top, prio, labelled)}, blanks(n)
		return w
	}}
}

func kubeflowSpecs(field string, names []string, counts []int) map[string]any {
	rs := map[string]any{}
	for i, nm := range names {
		if counts[i] > 0 {
			rs[nm] = map[string]any{"replicas": int64(counts[i]), "template": map[string]any{}}
		}
	}
	return map[string]any{field: rs}
}

// kubeflow distributed job: first replica type has 1 replica, second has max(1,n-1) (when there is
// a second type); min member = total replicas. pods: the first n of [type0-0, type1-0, type1-1].
func kubeflowEntry(id, apiVersion, kind, field string, types_ []string, withSub bool) entry {
	return entry{id: id, gvks: []string{gvkKey(apiVersion, kind)}, build: func(n int, labelled bool) *workload {
		counts := []int{n}
		if len(types_) == 2 {
			counts = []int{1, max(1, n-1)}
		}
		top := obj(apiVersion, kind, "w", nil, kubeflowSpecs(field, types_, counts))
		labelTop(top, labelled)
		w := &workload{objs: []client.Object{top}, meta: top}
		total := 0
		for _, c := range counts {
			total += c
		}
		e := defaults(top, "train", labelled)
		e.Min = total
		subs := []string{}
		for ti, t := range types_ {
			for r := 0; r < counts[ti] && len(w.pods) < n; r++ {
				lt := strings.ToLower(t)
				w.pods = append(w.pods, mkPod(fmt.Sprintf("w-%s-%d", lt, r), top, map[string]string{
					"training.kubeflow.org/replica-type": lt, "training.kubeflow.org/replica-index": fmt.Sprint(r),
					"training.kubeflow.org/job-name": "w", "training.kubeflow.org/job-role": lt,
				}, nil, labelled))
				if withSub {
					w.expSub = append(w.expSub, lt)
				} else {
					w.expSub = append(w.expSub, "")
				}
			}
			if withSub {
				subs = append(subs, fmt.Sprintf("%s:%d::", strings.ToLower(t), counts[ti]))
			}
		}
		e.Sub = strings.Join(subs, ";")
		w.groupOf, w.exp = ones(n), []expGroup{e}
		return w
	}}
}

func rayClusterSpec(workers int) map[string]any {
	spec := map[string]any{"headGroupSpec": map[string]any{"template": map[string]any{}}}
	if workers > 0 {
		spec["workerGroupSpecs"] = []any{map[string]any{"groupName": "wg", "replicas": int64(workers), "minReplicas": int64(workers), "template": map[string]any{}}}
	}
	return spec
}

func rayPods(w *workload, owner *unstructured.Unstructured, n int, labelled bool) {
	for i := 0; i < n; i++ {
		g := "wg"
		if i == 0 {
			g = "headgroup"
		}
		w.pods = append(w.pods, mkPod(fmt.Sprintf("w-ray-%d", i), owner, map[string]string{"ray.io/group": g}, nil, labelled))
		w.expSub = append(w.expSub, g)
	}
}

func raySub(workers int) string {
	s := "headgroup:1::"
	if workers > 0 {
		s += fmt.Sprintf(";wg:%d::", workers)
	}
	return s
}

func rayEntry(id, version, kind string) entry {
	apiVersion := "ray.io/" + version
	return entry{id: id, gvks: []string{gvkKey(apiVersion, kind)}, build: func(n int, labelled bool) *workload {
		w := &workload{}
		var top, cluster *unstructured.Unstructured
		switch kind {
		case "RayCluster":
			top = obj(apiVersion, kind, "w", nil, rayClusterSpec(n-1))
			cluster = top
			w.objs = []client.Object{top}
		case "RayJob":
			top = obj(apiVersion, kind, "w", nil, map[string]any{})
			top.Object["status"] = map[string]any{"rayClusterName": "w-cluster"}
			cluster = obj(apiVersion, "RayCluster", "w-cluster", top, rayClusterSpec(n-1))
			w.objs = []client.Object{top, cluster}
		case "RayService":
			top = obj(apiVersion, kind, "w", nil, map[string]any{})
			top.Object["status"] = map[string]any{"activeServiceStatus": map[string]any{"rayClusterName": "w-cluster"}}
			cluster = obj(apiVersion, "RayCluster", "w-cluster", top, rayClusterSpec(n-1))
			w.objs = []client.Object{top, cluster}
		}
		labelTop(top, labelled)
		w.meta = top
		rayPods(w, cluster, n, labelled)
		e := defaults(top, "train", labelled)
		e.Min, e.Sub = n, raySub(n-1)
		w.groupOf, w.exp = ones(n), []expGroup{e}
		return w
	}}
}

// perPodUnder: kinds documented as "one PodGroup per pod".
func lwsSpec(size int) map[string]any {
	return map[string]any{"replicas": int64(2), "leaderWorkerTemplate": map[string]any{"size": int64(size), "workerTemplate": map[string]any{}}}
}

func lwsBuild(top *unstructured.Unstructured, n int, labelled bool, w *workload) {
	// group 0: leader (+ worker when n >= 2); group 1: leader when n == 3. size = 2.
	type pd struct{ group, idx int }
	layout := [][]pd{{{0, 0}}, {{0, 0}, {0, 1}}, {{0, 0}, {0, 1}, {1, 0}}}[n-1]
	sts := obj("apps/v1", "StatefulSet", "w-sts", top, map[string]any{})
	w.objs = append(w.objs, sts)
	groupsSeen := map[int]int{}
	for _, p := range layout {
		w.pods = append(w.pods, mkPod(fmt.Sprintf("w-%d-%d", p.group, p.idx), sts, map[string]string{
			"leaderworkerset.sigs.k8s.io/group-index": fmt.Sprint(p.group), "leaderworkerset.sigs.k8s.io/worker-index": fmt.Sprint(p.idx),
			"leaderworkerset.sigs.k8s.io/name": "w",
		}, map[string]string{"leaderworkerset.sigs.k8s.io/size": "2"}, labelled))
		if _, ok := groupsSeen[p.group]; !ok {
			groupsSeen[p.group] = len(groupsSeen) + 1
			e := defaults(top, "train", labelled)
			e.Name = fmt.Sprintf("%s-group-%d", e.Name, p.group)
			e.Min, e.Sub = 2, "leader:1::;workers:1::"
			w.exp = append(w.exp, e)
		}
		w.groupOf = append(w.groupOf, groupsSeen[p.group])
		if p.idx == 0 {
			w.expSub = append(w.expSub, "leader")
		} else {
			w.expSub = append(w.expSub, "workers")
		}
	}
}

func jobSetSpec(order string) map[string]any {
	rj := func(name string, replicas, par int) any {
		return map[string]any{"name": name, "replicas": int64(replicas), "template": map[string]any{"spec": map[string]any{"parallelism": int64(par)}}}
	}
	spec := map[string]any{"replicatedJobs": []any{rj("a", 1, 2), rj("b", 1, 1)}}
	if order != "" {
		spec["startupPolicy"] = map[string]any{"startupPolicyOrder": order}
	}
	return spec
}

func jobSetBuild(top *unstructured.Unstructured, order string, n int, labelled bool, w *workload) {
	// pods of replicated job a (parallelism 2) and b; n = 2 already spans two replicated jobs.
	seq := [][]string{{"a"}, {"a", "b"}, {"a", "a", "b"}}[n-1]
	jobs := map[string]*unstructured.Unstructured{}
	groups := map[string]int{}
	cnt := map[string]int{}
	for _, rjName := range seq {
		if jobs[rjName] == nil {
			jobs[rjName] = obj("batch/v1", "Job", "w-"+rjName+"-0", top, map[string]any{})
			w.objs = append(w.objs, jobs[rjName])
		}
		w.pods = append(w.pods, mkPod(fmt.Sprintf("w-%s-0-%d", rjName, cnt[rjName]), jobs[rjName], map[string]string{
			"jobset.sigs.k8s.io/jobset-name": "w", "jobset.sigs.k8s.io/replicatedjob-name": rjName,
		}, nil, labelled))
		cnt[rjName]++
		w.expSub = append(w.expSub, "")
		if order == "AnyOrder" {
			if len(w.exp) == 0 {
				e := defaults(top, "train", labelled)
				e.Min = 3
				w.exp = append(w.exp, e)
			}
			w.groupOf = append(w.groupOf, 1)
			continue
		}
		if _, ok := groups[rjName]; !ok {
			groups[rjName] = len(groups) + 1
			e := defaults(top, "train", labelled)
			e.Name = e.Name + "-" + rjName
			e.Min = map[string]int{"a": 2, "b": 1}[rjName]
			w.exp = append(w.exp, e)
		}
		w.groupOf = append(w.groupOf, groups[rjName])
	}
}

func groveBuild(top, parent *unstructured.Unstructured, n int, labelled bool, w *workload) {
	refs := []any{}
	for i := 0; i < n; i++ {
		refs = append(refs, map[string]any{"namespace": ns, "name": fmt.Sprintf("w-%d", i)})
	}
	gang := obj("scheduler.grove.io/v1alpha1", "PodGang", "w-gang", parent, map[string]any{
		"podgroups": []any{map[string]any{"name": "clique", "minReplicas": int64(n), "podReferences": refs}},
	})
	labelTop(gang, labelled) // the grove plugin derives queue / priority from the PodGang's own labels
	clique := obj("grove.io/v1alpha1", "PodClique", "w-clique", parent, map[string]any{})
	w.objs = append(w.objs, gang, clique)
	for i := 0; i < n; i++ {
		w.pods = append(w.pods, mkPod(fmt.Sprintf("w-%d", i), clique, map[string]string{"grove.io/podgang": "w-gang"}, nil, labelled))
		w.expSub = append(w.expSub, "clique")
	}
	e := defaults(gang, "train", labelled)
	e.Min, e.Sub = n, fmt.Sprintf("clique:%d::", n)
	_ = top
	w.meta = gang
	w.groupOf, w.exp = ones(n), []expGroup{e}
}

func perPodExp(w *workload, owner func(p *v1.Pod) string, name func(p *v1.Pod) string, prio string, labelled bool) {
	for _, p := range w.pods {
		e := expGroup{Name: name(p), Min: 1, Prio: prio, Owner: owner(p), Queue: "default-queue"}
		if labelled {
			e.Queue, e.Prio, e.Preempt, e.NodePool = "team-a", "build", "non-preemptible", "pool-a"
		}
		w.exp = append(w.exp, e)
		w.expSub = append(w.expSub, "")
	}
	w.groupOf = iota1(len(w.pods))
}

func podName(p *v1.Pod) string { return fmt.Sprintf("pg-%s-%s", p.Name, p.UID) }

// skip: a skip-top-owner kind wrapping another catalogue entry: the wrapped workload's top owner gets
// the skipped object as its owner; the expectation is the wrapped one (labels of the skipped owner
// propagate down, so the scheduling labels are put on the skipped owner).
//
// Observed, deterministic, and outside C18 (the property is about determinism, not about which
// function): the skipped owner's priorityClassName / preemptibility labels do not reach a PodGroup
// built by the *default* plugin for a registered kind (StatefulSet: the label lookup uses the
// owners' stored metadata, not the propagated copy), and its queue label does not reach a Grove
// PodGroup (queue is read from the PodGang). prioProp / queueProp say what the code base does.
func skip(id, apiVersion, kind string, inner entry, prioProp, queueProp bool) entry {
	return entry{id: id, gvks: []string{gvkKey(apiVersion, kind)}, build: func(n int, labelled bool) *workload {
		skipped := obj(apiVersion, kind, "outer", nil, map[string]any{})
		labelTop(skipped, labelled)
		w := inner.build(n, false)
		if len(w.objs) > 0 {
			topU := w.objs[0].(*unstructured.Unstructured)
			topU.SetOwnerReferences([]metav1.OwnerReference{refOf(skipped)})
		} else {
			for _, p := range w.pods {
				p.OwnerReferences = []metav1.OwnerReference{refOf(skipped)}
			}
		}
		w.objs = append([]client.Object{skipped}, w.objs...)
		w.meta = skipped
		if labelled {
			for i := range w.exp {
				w.exp[i].NodePool = "pool-a"
				if queueProp {
					w.exp[i].Queue = "team-a"
				}
				if prioProp {
					w.exp[i].Prio, w.exp[i].Preempt = "build", "non-preemptible"
				}
			}
			for _, p := range w.pods {
				p.Labels[nodePoolKey] = "pool-a"
			}
		}
		return w
	}}
}

// ---- the catalogue ---------------------------------------------------------------------------

func catalogue() []entry {
	barePod := entry{id: "Pod", gvks: []string{"/v1/Pod"}, build: func(n int, labelled bool) *workload {
		w := &workload{}
		for i := 0; i < n; i++ {
			p := mkPod(fmt.Sprintf("solo-%d", i), nil, nil, nil, labelled)
			if labelled {
				p.Labels[queueLabelKey], p.Labels["priorityClassName"], p.Labels["kai.scheduler/preemptibility"] = "team-a", "build", "non-preemptible"
			}
			w.pods = append(w.pods, p)
		}
		perPodExp(w, podUnstructuredOwner, podName, "train", labelled)
		return w
	}}
	spark := entry{id: "SparkPods", gvks: []string{"/v1/Pod"}, build: func(n int, labelled bool) *workload {
		w := &workload{}
		sl := map[string]string{"spark-app-name": "app", "spark-app-selector": "spark-sel-1"}
		driver := mkPod("spark-driver", nil, sl, nil, labelled)
		if labelled {
			driver.Labels[queueLabelKey], driver.Labels["priorityClassName"], driver.Labels["kai.scheduler/preemptibility"] = "team-a", "build", "non-preemptible"
		}
		w.pods = append(w.pods, driver)
		du := obj("v1", "Pod", "spark-driver", nil, nil)
		for i := 1; i < n; i++ {
			w.pods = append(w.pods, mkPod(fmt.Sprintf("spark-exec-%d", i), du, sl, nil, labelled))
		}
		e := expGroup{Name: "spark-sel-1", Min: 1, Prio: "train", Owner: podUnstructuredOwner(driver), Queue: "default-queue"}
		if labelled {
			e.Queue, e.Prio, e.Preempt, e.NodePool = "team-a", "build", "non-preemptible", "pool-a"
		}
		w.groupOf, w.exp, w.expSub = ones(n), []expGroup{e}, blanks(n)
		return w
	}}
	job := entry{id: "Job", gvks: []string{"batch/v1/Job"}, build: func(n int, labelled bool) *workload {
		top := obj("batch/v1", "Job", "w", nil, map[string]any{"parallelism": int64(n)})
		labelTop(top, labelled)
		w := &workload{objs: []client.Object{top}, meta: top}
		for i := 0; i < n; i++ {
			w.pods = append(w.pods, mkPod(fmt.Sprintf("w-%d", i), top, nil, nil, labelled))
		}
		// the Job grouper names the group after the pod: one PodGroup per pod (min member 1)
		perPodExp(w, func(*v1.Pod) string { return ownerStr(top) }, func(p *v1.Pod) string { return fmt.Sprintf("pg-%s-%s", p.Name, top.GetUID()) }, "train", labelled)
		return w
	}}
	deployment := entry{id: "Deployment-ReplicaSet", gvks: []string{"apps/v1/Deployment"}, build: func(n int, labelled bool) *workload {
		top := obj("apps/v1", "Deployment", "w", nil, map[string]any{"replicas": int64(n)})
		labelTop(top, labelled)
		rs := obj("apps/v1", "ReplicaSet", "w-rs", top, map[string]any{})
		w := &workload{objs: []client.Object{top, rs}, meta: top}
		for i := 0; i < n; i++ {
			w.pods = append(w.pods, mkPod(fmt.Sprintf("w-rs-%d", i), rs, nil, nil, labelled))
		}
		perPodExp(w, podUnstructuredOwner, podName, "inference", labelled)
		return w
	}}
	cronjob := entry{id: "CronJob-Job", gvks: []string{"batch/v1/CronJob"}, build: func(n int, labelled bool) *workload {
		top := obj("batch/v1", "CronJob", "w", nil, map[string]any{})
		j := obj("batch/v1", "Job", "w-123", top, map[string]any{})
		labelTop(j, labelled) // the CronJob grouper groups by the Job instance and reads the Job's labels
		w := &workload{objs: []client.Object{top, j}, meta: j}
		for i := 0; i < n; i++ {
			w.pods = append(w.pods, mkPod(fmt.Sprintf("w-123-%d", i), j, nil, nil, labelled))
		}
		w.groupOf, w.exp, w.expSub = ones(n), []expGroup{defaults(j, "train", labelled)}, blanks(n)
		return w
	}}
	runaijob := entry{id: "RunaiJob", gvks: []string{"run.ai/v1/RunaiJob"}, build: func(n int, labelled bool) *workload {
		top := obj("run.ai/v1", "RunaiJob", "w", nil, map[string]any{})
		labelTop(top, labelled)
		w := &workload{objs: []client.Object{top}, meta: top}
		for i := 0; i < n; i++ {
			w.pods = append(w.pods, mkPod(fmt.Sprintf("w-x%d", i), top, nil, nil, labelled))
		}
		w.groupOf, w.exp, w.expSub = ones(n), []expGroup{defaults(top, "train", labelled)}, blanks(n)
		return w
	}}
	aml := entry{id: "AmlJob", gvks: []string{"amlarc.azureml.com/v1alpha1/AmlJob"}, build: func(n int, labelled bool) *workload {
		top := obj("amlarc.azureml.com/v1alpha1", "AmlJob", "w", nil, map[string]any{"job": map[string]any{"options": map[string]any{"envs": map[string]any{"AZUREML_NODE_COUNT": int64(n)}}}})
		labelTop(top, labelled)
		w := &workload{objs: []client.Object{top}, meta: top}
		for i := 0; i < n; i++ {
			w.pods = append(w.pods, mkPod(fmt.Sprintf("w-%d", i), top, nil, nil, labelled))
		}
		e := defaults(top, "train", labelled)
		e.Min = n
		w.groupOf, w.exp, w.expSub = ones(n), []expGroup{e}, blanks(n)
		return w
	}}
	knative := entry{id: "KnativeService", gvks: []string{"serving.knative.dev/v1/Service"}, build: func(n int, labelled bool) *workload {
		top := obj("serving.knative.dev/v1", "Service", "w", nil, map[string]any{})
		cfg := obj("serving.knative.dev/v1", "Configuration", "w", top, map[string]any{})
		rev := obj("serving.knative.dev/v1", "Revision", "w-00001", cfg, map[string]any{})
		rev.SetAnnotations(map[string]string{"autoscaling.knative.dev/min-scale": fmt.Sprint(n)})
		labelTop(rev, labelled) // the knative grouper reads the Revision
		dep := obj("apps/v1", "Deployment", "w-00001-deployment", rev, map[string]any{})
		rs := obj("apps/v1", "ReplicaSet", "w-00001-deployment-rs", dep, map[string]any{})
		w := &workload{objs: []client.Object{top, cfg, rev, dep, rs}, meta: rev}
		for i := 0; i < n; i++ {
			w.pods = append(w.pods, mkPod(fmt.Sprintf("w-00001-%d", i), rs, map[string]string{"serving.knative.dev/revision": "w-00001"}, nil, labelled))
		}
		e := defaults(rev, "inference", labelled)
		e.Min = n
		e.Preempt = "" // the knative plugin does not derive a preemptibility (observation, not a C18 matter)
		w.groupOf, w.exp, w.expSub = ones(n), []expGroup{e}, blanks(n)
		return w
	}}
	lws := entry{id: "LeaderWorkerSet", gvks: []string{"leaderworkerset.x-k8s.io/v1/LeaderWorkerSet"}, build: func(n int, labelled bool) *workload {
		top := obj("leaderworkerset.x-k8s.io/v1", "LeaderWorkerSet", "w", nil, lwsSpec(2))
		labelTop(top, labelled)
		w := &workload{objs: []client.Object{top}, meta: top}
		lwsBuild(top, n, labelled, w)
		return w
	}}
	jobsetFn := func(id, order string) entry {
		return entry{id: id, gvks: []string{"jobset.x-k8s.io/v1alpha2/JobSet"}, build: func(n int, labelled bool) *workload {
			top := obj("jobset.x-k8s.io/v1alpha2", "JobSet", "w", nil, jobSetSpec(order))
			labelTop(top, labelled)
			w := &workload{objs: []client.Object{top}, meta: top}
			jobSetBuild(top, order, n, labelled, w)
			return w
		}}
	}
	groveFn := func(kind string) entry {
		return entry{id: "Grove" + kind, gvks: []string{"grove.io/v1alpha1/" + kind}, build: func(n int, labelled bool) *workload {
			top := obj("grove.io/v1alpha1", kind, "w", nil, map[string]any{})
			labelTop(top, labelled)
			w := &workload{objs: []client.Object{top}, metaShadowsTop: labelled}
			groveBuild(top, top, n, labelled, w)
			return w
		}}
	}
	notebook := entry{id: "Notebook-StatefulSet", gvks: []string{"kubeflow.org/v1beta1/Notebook"}, build: func(n int, labelled bool) *workload {
		top := obj("kubeflow.org/v1beta1", "Notebook", "w", nil, map[string]any{})
		labelTop(top, labelled)
		sts := obj("apps/v1", "StatefulSet", "w-sts", top, map[string]any{})
		w := &workload{objs: []client.Object{top, sts}, meta: top}
		for i := 0; i < n; i++ {
			w.pods = append(w.pods, mkPod(fmt.Sprintf("w-%d", i), sts, nil, nil, labelled))
		}
		w.groupOf, w.exp, w.expSub = ones(n), []expGroup{defaults(top, "build", labelled)}, blanks(n)
		return w
	}}
	pytorch := kubeflowEntry("PyTorchJob", "kubeflow.org/v1", "PyTorchJob", "pytorchReplicaSpecs", []string{"Master", "Worker"}, true)
	jobsetInOrder := jobsetFn("JobSet-InOrder", "")
	deploymentInner := deployment

	es := []entry{
		barePod, spark, job, deployment, cronjob,
		sharedDefault("ReplicaSet", "apps/v1", "ReplicaSet", "train"),
		sharedDefault("StatefulSet", "apps/v1", "StatefulSet", "train"),
		pytorch,
		kubeflowEntry("TFJob", "kubeflow.org/v1", "TFJob", "tfReplicaSpecs", []string{"Chief", "Worker"}, false),
		kubeflowEntry("XGBoostJob", "kubeflow.org/v1", "XGBoostJob", "xgbReplicaSpecs", []string{"Master", "Worker"}, false),
		kubeflowEntry("JAXJob", "kubeflow.org/v1", "JAXJob", "jaxReplicaSpecs", []string{"Worker"}, false),
		kubeflowEntry("MPIJob-v1", "kubeflow.org/v1", "MPIJob", "mpiReplicaSpecs", []string{"Launcher", "Worker"}, false),
		kubeflowEntry("MPIJob-v2beta1", "kubeflow.org/v2beta1", "MPIJob", "mpiReplicaSpecs", []string{"Launcher", "Worker"}, false),
		notebook,
		sharedDefault("ScheduledWorkflow", "kubeflow.org/v1alpha1", "ScheduledWorkflow", "train"),
		runaijob, aml, knative,
		rayEntry("RayCluster-v1", "v1", "RayCluster"), rayEntry("RayJob-v1", "v1", "RayJob"), rayEntry("RayService-v1", "v1", "RayService"),
		rayEntry("RayCluster-v1alpha1", "v1alpha1", "RayCluster"), rayEntry("RayJob-v1alpha1", "v1alpha1", "RayJob"), rayEntry("RayService-v1alpha1", "v1alpha1", "RayService"),
		jobsetInOrder, jobsetFn("JobSet-AnyOrder", "AnyOrder"), lws,
		groveFn("PodGangSet"), groveFn("PodCliqueSet"),
		sharedDefault("SeldonDeployment-v1", "machinelearning.seldon.io/v1", "SeldonDeployment", "train", [2]string{"apps/v1", "ReplicaSet"}),
		sharedDefault("SeldonDeployment-v1alpha2", "machinelearning.seldon.io/v1alpha2", "SeldonDeployment", "train", [2]string{"apps/v1", "ReplicaSet"}),
		sharedDefault("VirtualMachineInstance", "kubevirt.io/v1", "VirtualMachineInstance", "train"),
		sharedDefault("DevWorkspace", "workspace.devfile.io/v1alpha2", "DevWorkspace", "train", [2]string{"apps/v1", "ReplicaSet"}),
		sharedDefault("PipelineRun", "tekton.dev/v1", "PipelineRun", "train", [2]string{"tekton.dev/v1", "TaskRun"}),
		sharedDefault("TaskRun", "tekton.dev/v1", "TaskRun", "train"),
		sharedDefault("SPOTRequest", "egx.nvidia.io/v1", "SPOTRequest", "inference"),
		sharedDefault("UnknownKind", "example.com/v1", "Widget", "train"),
		// skip-top-owner kinds
		skip("ArgoWorkflow-Pod", "argoproj.io/v1alpha1", "Workflow", barePod, true, true),
		skip("ArgoWorkflow-PyTorchJob", "argoproj.io/v1alpha1", "Workflow", pytorch, true, true),
		skip("TrainingWorkload-Job", "run.ai/v2alpha1", "TrainingWorkload", job, true, true),
		skip("InferenceWorkload-Deployment", "run.ai/v2alpha1", "InferenceWorkload", deploymentInner, true, true),
		skip("DistributedWorkload-PyTorchJob", "run.ai/v2alpha1", "DistributedWorkload", pytorch, true, true),
		skip("InteractiveWorkload-StatefulSet", "run.ai/v2alpha1", "InteractiveWorkload", sharedDefault("StatefulSet", "apps/v1", "StatefulSet", "train"), false, true),
		skip("DistributedInferenceWorkload-LWS", "run.ai/v2alpha1", "DistributedInferenceWorkload", lws, true, true),
		skip("TrainJob-JobSet", "trainer.kubeflow.org/v1alpha1", "TrainJob", jobsetInOrder, true, true),
		skip("DynamoGraphDeployment-PodCliqueSet", "nvidia.com/v1alpha1", "DynamoGraphDeployment", groveFn("PodCliqueSet"), true, false),
	}
	// wildcard-version hub keys are exercised with version v2alpha1
	for i := range es {
		for j, k := range es[i].gvks {
			if strings.HasPrefix(k, "run.ai/v2alpha1/") {
				es[i].gvks[j] = "run.ai/*/" + strings.TrimPrefix(k, "run.ai/v2alpha1/")
			}
		}
	}
	return es
}
