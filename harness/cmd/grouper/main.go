// Command grouper drives the real pod-grouper PodReconciler (C18) on a controller-runtime fake
// client with a write-counting interceptor.
//
// For every catalogue entry (catalogue.go: one per GroupVersionKind registered in the plugins hub,
// plus chains) and every replica count n in 1..3 it executes schedules - sequences of
// Reconcile(pod), ForeignUpdate(group, field), OwnerChange / OwnerSet (an owner label or annotation
// added, changed, removed) and ReconcileRaced(pod, field) (a foreign update forced between the
// reconciler's Get and Update of the PodGroup) steps exported by TLC from spec/Grouper.tla (all
// transitions of the schedule graph) or drawn at random (-random N -seed S) - each in a fresh
// store, and logs after every step: which pod was reconciled, the number of mutating client calls
// by verb and by kind, the projection of the PodGroup objects (derived + foreign fields) and the
// pods' group annotation / sub-group label. spec/GrouperTrace.tla judges the trace.
package main

import (
	"bufio"
	"context"
	"encoding/json"
	"flag"
	"fmt"
	"math/rand"
	"os"
	"reflect"
	"runtime/pprof"
	"sort"
	"strings"
	"sync"
	"unsafe"

	"github.com/go-logr/logr"
	v1 "k8s.io/api/core/v1"
	schedulingv1 "k8s.io/api/scheduling/v1"
	apierrors "k8s.io/apimachinery/pkg/api/errors"
	metav1 "k8s.io/apimachinery/pkg/apis/meta/v1"
	"k8s.io/apimachinery/pkg/apis/meta/v1/unstructured"
	"k8s.io/apimachinery/pkg/runtime"
	"k8s.io/apimachinery/pkg/types"
	"k8s.io/client-go/tools/record"
	"k8s.io/utils/ptr"
	ctrl "sigs.k8s.io/controller-runtime"
	"sigs.k8s.io/controller-runtime/pkg/client"
	"sigs.k8s.io/controller-runtime/pkg/client/fake"
	ctrllog "sigs.k8s.io/controller-runtime/pkg/log"

	"github.com/NVIDIA/KAI-scheduler/pkg/apis/scheduling/v2alpha2"
	controllers "github.com/NVIDIA/KAI-scheduler/pkg/podgrouper"
	"github.com/NVIDIA/KAI-scheduler/pkg/podgrouper/podgroup"
	"github.com/NVIDIA/KAI-scheduler/pkg/podgrouper/podgrouper"
	pluginshub "github.com/NVIDIA/KAI-scheduler/pkg/podgrouper/podgrouper/hub"

	"verif/harness/internal/grouperclient"
	"verif/harness/internal/tracefmt"
)

type step struct {
	N string `json:"n"` // "Reconcile" | "Raced" | "Foreign" | "Owner"
	P int    `json:"p"` // pod index (1-based) for Reconcile / Raced
	G int    `json:"g"` // group index (1-based) for Foreign; Owner pe / pr: the label's new state (0 removed, 1, 2)
	F string `json:"f"` // Foreign / Raced: queue | mark | backoff | nodepool | stamp; Owner: l | a | pe | pr
}

type schedule struct {
	Shape    []int  `json:"shape"`
	Steps    []step `json:"steps"`
	Skeleton int    `json:"skeleton"` // 1: always executed; 0: subject to -cap sampling
	Lab      int    `json:"lab"`      // the install the schedule starts from: 0 plain, 1 labelled, 2 either
}

type sched struct {
	steps []step
	lab   int
}

var fields = []string{"queue", "mark", "backoff", "nodepool", "stamp"}

const (
	ownerLabelKey = "verif/owner-label"
	ownerAnnKey   = "verif/owner-ann"
	stampKey      = "kai.scheduler/last-start-timestamp" // written on the PodGroup by the scheduler
)

// the owner labels a derived spec field follows (Grouper!OwnerSet): key and the values of label state 1 and 2
// (state 1 = what labelTop puts on a labelled install)
var ownerSets = map[string]struct {
	key  string
	vals [3]string
}{
	"pe": {"kai.scheduler/preemptibility", [3]string{"", "non-preemptible", "preemptible"}},
	"pr": {"priorityClassName", [3]string{"", "build", "inference"}},
}

// setUnexported sets an unexported struct field (the reconciler's dependencies are normally
// injected by SetupWithManager, which needs a live manager; nothing in /repo is changed).
func setUnexported(target any, field string, value any) {
	v := reflect.ValueOf(target).Elem().FieldByName(field)
	if !v.IsValid() {
		panic("harness: field " + field + " not found on " + reflect.TypeOf(target).String())
	}
	reflect.NewAt(v.Type(), unsafe.Pointer(v.UnsafeAddr())).Elem().Set(reflect.ValueOf(value))
}

func hubKeys(hub *pluginshub.DefaultPluginsHub) []string {
	v := reflect.ValueOf(hub).Elem().FieldByName("customPlugins")
	keys := []string{}
	for _, k := range v.MapKeys() {
		gvk := metav1.GroupVersionKind{Group: k.FieldByName("Group").String(), Version: k.FieldByName("Version").String(), Kind: k.FieldByName("Kind").String()}
		keys = append(keys, gvk.Group+"/"+gvk.Version+"/"+gvk.Kind)
	}
	sort.Strings(keys)
	return keys
}

type world struct {
	c       client.WithWatch
	k       *grouperclient.Counter
	r       *controllers.PodReconciler
	hub     *pluginshub.DefaultPluginsHub
	w       *workload
	fcount  map[string]int // (group,field) -> number of foreign updates so far; "owner/l", "owner/a"
	gangKnt bool
	// race: armed by raced(): the foreign update to force in front of the reconciler's next Update of that PodGroup
	race *race
}

type race struct {
	g     int
	f     string
	fired bool
	k     int
	err   error
}

// newScheme: deliberately small - the fake client's field-managed tracker rebuilds a REST mapper
// from all known types on every write. Owners are unstructured and get registered on first use.
// One scheme per worker goroutine (the fake client mutates it when it meets an unknown kind).
func newScheme() *runtime.Scheme {
	s := runtime.NewScheme()
	s.AddKnownTypes(v1.SchemeGroupVersion, &v1.Pod{}, &v1.PodList{}, &v1.ConfigMap{}, &v1.ConfigMapList{}, &v1.Namespace{}, &v1.NamespaceList{},
		&v1.Event{}, &v1.EventList{})
	metav1.AddToGroupVersion(s, v1.SchemeGroupVersion)
	_ = schedulingv1.AddToScheme(s)
	_ = v2alpha2.AddToScheme(s)
	return s
}

func newWorld(w *workload, scheme *runtime.Scheme) *world {
	c, k := grouperclient.New(scheme, func(b *fake.ClientBuilder) {})
	ctx := context.Background()
	for _, pc := range []struct {
		n string
		v int32
	}{{"train", 50}, {"build", 100}, {"inference", 125}} {
		if err := c.Create(ctx, &schedulingv1.PriorityClass{ObjectMeta: metav1.ObjectMeta{Name: pc.n}, Value: pc.v}); err != nil {
			panic(err)
		}
	}
	for _, o := range w.objs {
		if err := c.Create(ctx, o.DeepCopyObject().(client.Object)); err != nil {
			panic(fmt.Sprintf("create %s %s: %v", o.GetObjectKind().GroupVersionKind(), o.GetName(), err))
		}
	}
	for _, p := range w.pods {
		if err := c.Create(ctx, p.DeepCopy()); err != nil {
			panic(err)
		}
	}
	configs := controllers.Configs{
		NodePoolLabelKey: nodePoolKey, MaxConcurrentReconciles: 1, SearchForLegacyPodGroups: true, KnativeGangSchedule: true,
		SchedulerName: schedulerName, SchedulingQueueLabelKey: queueLabelKey,
	}
	hub := pluginshub.NewDefaultPluginsHub(c, configs.SearchForLegacyPodGroups, configs.KnativeGangSchedule, configs.SchedulingQueueLabelKey,
		configs.NodePoolLabelKey, configs.DefaultConfigPerTypeConfigMapName, configs.DefaultConfigPerTypeConfigMapNamespace)
	r := &controllers.PodReconciler{Client: c, Scheme: scheme,
		PodGroupHandler: podgroup.NewHandler(c, configs.NodePoolLabelKey, configs.SchedulingQueueLabelKey)}
	var pgr podgrouper.Interface = podgrouper.NewPodgrouper(c, c, hub)
	setUnexported(r, "podGrouper", pgr)
	setUnexported(r, "configs", configs)
	var rec record.EventRecorder = &record.FakeRecorder{}
	setUnexported(r, "eventRecorder", rec)
	wd := &world{c: c, k: k, r: r, hub: hub, w: w, fcount: map[string]int{}}
	// the reconciler is about to Update a PodGroup (it has read it before): if a race is armed for it, the
	// foreign actor's update reaches the store first, then the reconciler's Update is let through to the
	// store's optimistic concurrency check (stale resourceVersion -> 409 Conflict).
	k.BeforeUpdate = func(ctx context.Context, inner client.WithWatch, obj client.Object) {
		rc := wd.race
		if rc == nil || rc.fired {
			return
		}
		if pg, ok := obj.(*v2alpha2.PodGroup); !ok || pg.Name != wd.w.exp[rc.g-1].Name {
			return
		}
		rc.fired = true
		rc.k, rc.err = wd.applyForeign(ctx, inner, rc.g, rc.f)
	}
	return wd
}

func subString(sgs []v2alpha2.SubGroup) string {
	parts := []string{}
	for _, sg := range sgs {
		parent := ""
		if sg.Parent != nil {
			parent = *sg.Parent
		}
		topo := ""
		if sg.TopologyConstraint != nil {
			topo = sg.TopologyConstraint.Topology + "/" + sg.TopologyConstraint.RequiredTopologyLevel + "/" + sg.TopologyConstraint.PreferredTopologyLevel
		}
		parts = append(parts, fmt.Sprintf("%s:%d:%s:%s", sg.Name, sg.MinMember, parent, topo))
	}
	return strings.Join(parts, ";")
}

func mapString(m map[string]string, skip ...string) string {
	keys := []string{}
outer:
	for k := range m {
		for _, s := range skip {
			if k == s {
				continue outer
			}
		}
		keys = append(keys, k)
	}
	sort.Strings(keys)
	parts := []string{}
	for _, k := range keys {
		parts = append(parts, k+"="+strings.ReplaceAll(m[k], "\n", "|"))
	}
	return strings.Join(parts, ",")
}

func blankGroup() map[string]any {
	return map[string]any{"ex": 0, "name": "", "min": 0, "prio": "", "preempt": "", "sub": "", "owner": "", "topo": "", "meta": "",
		"queue": "", "mark": "", "backoff": "", "nodepool": "", "stamp": "", "ol": "", "oa": ""}
}

func projectPG(pg *v2alpha2.PodGroup) map[string]any {
	owner := ""
	for i, o := range pg.OwnerReferences {
		if i > 0 {
			owner += ","
		}
		owner += o.APIVersion + "/" + o.Kind + "/" + o.Name + "/" + string(o.UID)
	}
	mark := "nil"
	if pg.Spec.MarkUnschedulable != nil {
		mark = fmt.Sprint(*pg.Spec.MarkUnschedulable)
	}
	backoff := "nil"
	if pg.Spec.SchedulingBackoff != nil {
		backoff = fmt.Sprint(*pg.Spec.SchedulingBackoff)
	}
	topo := ""
	tc := pg.Spec.TopologyConstraint
	if tc.Topology != "" || tc.RequiredTopologyLevel != "" || tc.PreferredTopologyLevel != "" {
		topo = tc.Topology + "/" + tc.RequiredTopologyLevel + "/" + tc.PreferredTopologyLevel
	}
	return map[string]any{"ex": 1, "name": pg.Name, "min": int(pg.Spec.MinMember), "prio": pg.Spec.PriorityClassName,
		"preempt": string(pg.Spec.Preemptibility), "sub": subString(pg.Spec.SubGroups), "owner": owner, "topo": topo,
		"meta": "L{" + mapString(pg.Labels, nodePoolKey) + "}A{" + mapString(pg.Annotations) + "}",
		"queue": pg.Spec.Queue, "mark": mark, "backoff": backoff, "nodepool": pg.Labels[nodePoolKey],
		"stamp": pg.Annotations[stampKey], "ol": pg.Labels[ownerLabelKey], "oa": pg.Annotations[ownerAnnKey]}
}

// project: one record per expected group (the PodGroup carrying the expected name, if it exists),
// the number of PodGroups nobody expects, and the pods' annotation / sub-group label.
func (wd *world) project() (groups []map[string]any, pods []map[string]any, extra int) {
	ctx := context.Background()
	var list v2alpha2.PodGroupList
	if err := wd.c.List(ctx, &list, client.InNamespace(ns)); err != nil {
		panic(err)
	}
	byName := map[string]*v2alpha2.PodGroup{}
	for i := range list.Items {
		byName[list.Items[i].Name] = &list.Items[i]
	}
	used := map[string]bool{}
	for _, e := range wd.w.exp {
		if pg, ok := byName[e.Name]; ok {
			groups = append(groups, projectPG(pg))
			used[e.Name] = true
		} else {
			groups = append(groups, blankGroup())
		}
	}
	for n := range byName {
		if !used[n] {
			extra++
		}
	}
	for _, p := range wd.w.pods {
		var cur v1.Pod
		if err := wd.c.Get(ctx, types.NamespacedName{Namespace: ns, Name: p.Name}, &cur); err != nil {
			panic(err)
		}
		pods = append(pods, map[string]any{"ann": cur.Annotations["pod-group-name"], "sub": cur.Labels["kai.scheduler/subgroup-name"]})
	}
	return
}

func (wd *world) reconcile(p int) map[string]any {
	pod := wd.w.pods[p-1]
	wd.k.Start()
	_, err := wd.r.Reconcile(context.Background(), ctrl.Request{NamespacedName: types.NamespacedName{Namespace: ns, Name: pod.Name}})
	cnt := wd.k.Stop()
	groups, pods, extra := wd.project()
	errs := ""
	if err != nil {
		errs = err.Error()
	}
	wpg, wpod := cnt.ByKind["PodGroup"], cnt.ByKind["Pod"]
	return map[string]any{"ev": "Reconcile", "p": p, "g": 0, "f": "", "k": 0, "err": errs, "create": cnt.Create, "update": cnt.Update, "patch": cnt.Patch,
		"delete": cnt.Delete, "empty": cnt.EmptyPatch, "wpg": wpg, "wpod": wpod, "wother": cnt.Effective() - wpg - wpod,
		"groups": groups, "pods": pods, "extra": extra}
}

// applyForeign: another actor (scheduler / pod-group-assigner / admin) reads the PodGroup, changes a field it
// owns and updates it, through client c. Returns the ordinal of this update of (group, field).
func (wd *world) applyForeign(ctx context.Context, c client.Client, g int, f string) (int, error) {
	key := fmt.Sprintf("%d/%s", g, f)
	wd.fcount[key]++
	k := wd.fcount[key]
	var pg v2alpha2.PodGroup
	if err := c.Get(ctx, types.NamespacedName{Namespace: ns, Name: wd.w.exp[g-1].Name}, &pg); err != nil {
		return k, err
	}
	switch f {
	case "queue":
		pg.Spec.Queue = fmt.Sprintf("fq%d", k)
	case "mark":
		pg.Spec.MarkUnschedulable = ptr.To(k%2 == 1)
	case "backoff":
		b := int32(1) // the only supported values are -1 and 1 (Grouper!FVal)
		if k == 1 {
			b = -1
		}
		pg.Spec.SchedulingBackoff = ptr.To(b)
	case "nodepool":
		if pg.Labels == nil {
			pg.Labels = map[string]string{}
		}
		pg.Labels[nodePoolKey] = fmt.Sprintf("pool-f%d", k)
	case "stamp":
		if pg.Annotations == nil {
			pg.Annotations = map[string]string{}
		}
		pg.Annotations[stampKey] = fmt.Sprintf("ts%d", k)
	}
	return k, c.Update(ctx, &pg)
}

// foreign: a foreign update between two reconciles.
func (wd *world) foreign(g int, f string) map[string]any {
	errs := ""
	k, err := wd.applyForeign(context.Background(), wd.c, g, f)
	if err != nil {
		errs = err.Error()
	}
	groups, pods, extra := wd.project()
	return map[string]any{"ev": "Foreign", "p": 0, "g": g, "f": f, "k": k, "err": errs, "create": 0, "update": 0, "patch": 0, "delete": 0, "empty": 0,
		"wpg": 0, "wpod": 0, "wother": 0, "groups": groups, "pods": pods, "extra": extra}
}

// raced: Reconcile(p) with a foreign update of field f of p's PodGroup landing after the reconciler's Get of the
// PodGroup and before its Update (forced in the client's Update interceptor, see newWorld). fired = 0: the
// reconcile issued no PodGroup Update (nothing to write), it was an ordinary reconcile. cf = 1: the reconcile
// returned a 409 Conflict error (the controller's work queue would retry it: the schedule's next Reconcile step).
func (wd *world) raced(p int, f string) map[string]any {
	g := wd.w.groupOf[p-1]
	wd.race = &race{g: g, f: f}
	pod := wd.w.pods[p-1]
	wd.k.Start()
	_, err := wd.r.Reconcile(context.Background(), ctrl.Request{NamespacedName: types.NamespacedName{Namespace: ns, Name: pod.Name}})
	cnt := wd.k.Stop()
	rc := wd.race
	wd.race = nil
	groups, pods, extra := wd.project()
	errs, cf, fired, k := "", 0, 0, 0
	if err != nil {
		errs = err.Error()
		if apierrors.IsConflict(err) {
			cf = 1
		}
	}
	if rc.fired {
		fired, k = 1, rc.k
		if rc.err != nil {
			errs, cf = "foreign update inside the race failed: "+rc.err.Error(), 0
		}
	}
	wpg, wpod := cnt.ByKind["PodGroup"], cnt.ByKind["Pod"]
	return map[string]any{"ev": "Raced", "p": p, "g": g, "f": f, "k": k, "fired": fired, "cf": cf, "err": errs, "create": cnt.Create, "update": cnt.Update,
		"patch": cnt.Patch, "delete": cnt.Delete, "empty": cnt.EmptyPatch, "wpg": wpg, "wpod": wpod, "wother": cnt.Effective() - wpg - wpod,
		"groups": groups, "pods": pods, "extra": extra}
}

// ownerChange: the user edits the metadata of the object the PodGroups inherit from - a legitimate external
// change of the workload. kind l / a: a label / annotation is added (first time) or changed; kind pe / pr: the
// preemptibility / priority class label is put into state v (0 = removed, 1, 2 = ownerSets values).
func (wd *world) ownerChange(kind string, v int) map[string]any {
	ctx := context.Background()
	k := v
	if _, set := ownerSets[kind]; !set {
		wd.fcount["owner/"+kind]++
		k = wd.fcount["owner/"+kind]
	}
	errs := ""
	if wd.w.meta == nil {
		errs = "catalogue entry has no metadata owner"
	} else {
		cur := &unstructured.Unstructured{}
		cur.SetGroupVersionKind(wd.w.meta.GroupVersionKind())
		if err := wd.c.Get(ctx, types.NamespacedName{Namespace: ns, Name: wd.w.meta.GetName()}, cur); err != nil {
			errs = err.Error()
		} else {
			if kind == "a" {
				a := cur.GetAnnotations()
				if a == nil {
					a = map[string]string{}
				}
				a[ownerAnnKey] = fmt.Sprintf("v%d", k)
				cur.SetAnnotations(a)
			} else {
				l := cur.GetLabels()
				if l == nil {
					l = map[string]string{}
				}
				if os, set := ownerSets[kind]; !set {
					l[ownerLabelKey] = fmt.Sprintf("v%d", k)
				} else if v == 0 {
					delete(l, os.key)
				} else {
					l[os.key] = os.vals[v]
				}
				cur.SetLabels(l)
			}
			if err := wd.c.Update(ctx, cur); err != nil {
				errs = err.Error()
			}
		}
	}
	groups, pods, extra := wd.project()
	return map[string]any{"ev": "Owner", "p": 0, "g": v, "f": kind, "k": k, "err": errs, "create": 0, "update": 0, "patch": 0, "delete": 0, "empty": 0,
		"wpg": 0, "wpod": 0, "wother": 0, "groups": groups, "pods": pods, "extra": extra}
}

func hasOwnerStep(steps []step) bool {
	for _, s := range steps {
		if s.N == "Owner" {
			return true
		}
	}
	return false
}

func schedString(steps []step) string {
	parts := []string{}
	for _, s := range steps {
		if s.N == "Reconcile" {
			parts = append(parts, fmt.Sprintf("R%d", s.P))
		} else if s.N == "Raced" {
			parts = append(parts, fmt.Sprintf("X%d%s", s.P, s.F))
		} else if _, set := ownerSets[s.F]; s.N == "Owner" && set {
			parts = append(parts, fmt.Sprintf("O%s%d", s.F, s.G))
		} else if s.N == "Owner" {
			parts = append(parts, "O"+s.F)
		} else {
			parts = append(parts, fmt.Sprintf("F%d%s", s.G, s.F))
		}
	}
	return strings.Join(parts, " ")
}

type emitter interface{ Emit(map[string]any) }

type buffer struct{ evs []map[string]any }

func (b *buffer) Emit(ev map[string]any) { b.evs = append(b.evs, ev) }

func runOne(out emitter, scheme *runtime.Scheme, e entry, n int, labelled bool, steps []step, id string) {
	w := e.build(n, labelled)
	wd := newWorld(w, scheme)
	lab := 0
	if labelled {
		lab = 1
	}
	own := 0
	if w.meta != nil {
		own = 1
	}
	// expo: what a fresh grouping looks like for every state of the owner's editable scheduling labels; ov0: the
	// state the workload is installed in
	out.Emit(map[string]any{"ev": "Scenario", "id": id, "class": e.id, "kind": e.id, "n": n, "labelled": lab, "owner": own, "grp": w.groupOf, "exp": w.exp, "expsub": w.expSub,
		"expo": ownerExpectations(e.build(n, false), e.build(n, true), w), "ov0": lab, "sched": schedString(steps)})
	for _, s := range steps {
		switch s.N {
		case "Reconcile":
			out.Emit(wd.reconcile(s.P))
		case "Raced":
			out.Emit(wd.raced(s.P, s.F))
		case "Owner":
			out.Emit(wd.ownerChange(s.F, s.G))
		default:
			out.Emit(wd.foreign(s.G, s.F))
		}
	}
}

func shapeKey(s []int) string { return fmt.Sprint(s) }

func randomSchedule(r *rand.Rand, shape []int, length, maxForeign int, withOwner bool, lab int) []step {
	nOwner := 0
	ng := 0
	for _, g := range shape {
		if g > ng {
			ng = g
		}
	}
	exists := map[int]bool{}
	steps := []step{}
	nf := 0
	perField := map[string]int{}
	ownerState := map[string]int{"pe": lab, "pr": lab}
	pending := map[int]bool{} // groups with an owner change no reconcile has seen yet: a reconcile has something to write
	for len(steps) < length {
		if nf < maxForeign && len(exists) > 0 && r.Intn(3) == 0 {
			gs := []int{}
			for g := range exists {
				gs = append(gs, g)
			}
			sort.Ints(gs)
			g, f := gs[r.Intn(len(gs))], fields[r.Intn(len(fields))]
			if perField[fmt.Sprint(g, f)] >= 2 {
				continue
			}
			perField[fmt.Sprint(g, f)]++
			steps = append(steps, step{N: "Foreign", G: g, F: f})
			nf++
			continue
		}
		if withOwner && nOwner < 2 && r.Intn(5) == 0 {
			nOwner++
			kind := []string{"l", "a", "pe", "pr"}[r.Intn(4)]
			st := step{N: "Owner", F: kind}
			if cur, set := ownerState[kind]; set {
				st.G = (cur + 1 + r.Intn(2)) % 3 // one of the two other states: set / change / remove
				ownerState[kind] = st.G
			}
			steps = append(steps, st)
			for g := range exists {
				pending[g] = true
			}
			continue
		}
		p := 1 + r.Intn(len(shape))
		g := shape[p-1]
		// the reconcile that carries an owner change to an existing PodGroup: half of the time raced by a foreign update
		if pending[g] && exists[g] && nf < maxForeign && r.Intn(2) == 0 {
			f := fields[r.Intn(len(fields))]
			if perField[fmt.Sprint(g, f)] < 2 {
				perField[fmt.Sprint(g, f)]++
				nf++
				steps = append(steps, step{N: "Raced", P: p, F: f})
				continue // not completed (409): the change is still pending
			}
		}
		exists[g] = true
		delete(pending, g)
		steps = append(steps, step{N: "Reconcile", P: p})
	}
	return steps
}

func main() {
	schedFile := flag.String("schedules", "", "ndjson schedules exported by TLC")
	outFile := flag.String("out", "", "trace ndjson")
	seed := flag.Int64("seed", 1, "seed")
	random := flag.Int("random", 0, "random schedules per (kind, n, variant)")
	rlen := flag.Int("rlen", 7, "length of random schedules")
	capN := flag.Int("cap", 0, "max TLC schedules per (kind, n, variant); 0 = all")
	kinds := flag.String("kinds", "", "comma separated catalogue ids (default all)")
	labelledMode := flag.Int("labelled", 2, "0 plain, 1 labelled, 2 both")
	workers := flag.Int("workers", 6, "parallel worlds")
	list := flag.Bool("list", false, "print hub keys and catalogue coverage as JSON")
	one := flag.String("one", "", "run a single scenario: kind:n:labelled:schedule (schedule as in the Scenario line)")
	cpuprofile := flag.String("cpuprofile", "", "write a CPU profile (development)")
	flag.Parse()
	if *cpuprofile != "" {
		pf, _ := os.Create(*cpuprofile)
		_ = pprof.StartCPUProfile(pf)
		defer pprof.StopCPUProfile()
	}
	ctrllog.SetLogger(logr.Discard())

	cat := catalogue()
	if *list {
		wd := newWorld(&workload{}, newScheme())
		covered := map[string][]string{}
		for _, e := range cat {
			for _, k := range e.gvks {
				covered[k] = append(covered[k], e.id)
			}
		}
		missing := []string{}
		keys := hubKeys(wd.hub)
		for _, k := range keys {
			if len(covered[k]) == 0 {
				missing = append(missing, k)
			}
		}
		ids := []string{}
		for _, e := range cat {
			ids = append(ids, e.id)
		}
		b, _ := json.Marshal(map[string]any{"hub_keys": keys, "covered": covered, "missing": missing, "entries": ids})
		fmt.Println(string(b))
		return
	}

	out, err := tracefmt.Create(*outFile)
	if err != nil {
		panic(err)
	}
	want := map[string]bool{}
	for _, k := range strings.Split(*kinds, ",") {
		if k != "" {
			want[k] = true
		}
	}

	if *one != "" {
		parts := strings.SplitN(*one, ":", 4)
		var n, lab int
		fmt.Sscan(parts[1], &n)
		fmt.Sscan(parts[2], &lab)
		steps := []step{}
		for _, tok := range strings.Fields(parts[3]) {
			if tok[0] == 'R' {
				var p int
				fmt.Sscan(tok[1:], &p)
				steps = append(steps, step{N: "Reconcile", P: p})
			} else if tok[0] == 'X' {
				var p int
				fmt.Sscan(tok[1:2], &p)
				steps = append(steps, step{N: "Raced", P: p, F: tok[2:]})
			} else if tok[0] == 'O' {
				st := step{N: "Owner", F: tok[1:]}
				if len(tok) == 4 { // Ope0 / Opr2: owner label set to a state
					st.F = tok[1:3]
					fmt.Sscan(tok[3:], &st.G)
				}
				steps = append(steps, st)
			} else {
				var g int
				fmt.Sscan(tok[1:2], &g)
				steps = append(steps, step{N: "Foreign", G: g, F: tok[2:]})
			}
		}
		for _, e := range cat {
			if e.id == parts[0] {
				runOne(out, newScheme(), e, n, lab == 1, steps, "one")
			}
		}
		if err := out.Close(); err != nil {
			panic(err)
		}
		return
	}

	byShape := map[string][]sched{}
	mustShape := map[string][]sched{}
	if *schedFile != "" {
		f, err := os.Open(*schedFile)
		if err != nil {
			panic(err)
		}
		sc := bufio.NewScanner(f)
		sc.Buffer(make([]byte, 1<<20), 1<<26)
		for sc.Scan() {
			var s schedule
			if err := json.Unmarshal(sc.Bytes(), &s); err != nil {
				panic(err)
			}
			if s.Skeleton == 1 {
				mustShape[shapeKey(s.Shape)] = append(mustShape[shapeKey(s.Shape)], sched{s.Steps, s.Lab})
			} else {
				byShape[shapeKey(s.Shape)] = append(byShape[shapeKey(s.Shape)], sched{s.Steps, s.Lab})
			}
		}
	}
	r := rand.New(rand.NewSource(*seed))
	scen, kindsRun := 0, 0
	shapesSeen := map[string]int{}
	type job struct {
		e     entry
		n     int
		lab   bool
		steps []step
		id    string
		buf   buffer
	}
	jobs := []*job{}
	for _, e := range cat {
		if len(want) > 0 && !want[e.id] {
			continue
		}
		kindsRun++
		for n := 1; n <= 3; n++ {
			for lab := 0; lab <= 1; lab++ {
				if *labelledMode != 2 && *labelledMode != lab {
					continue
				}
				wl := e.build(n, lab == 1)
				shape := wl.groupOf
				withOwner := wl.meta != nil
				scheds := [][]step{}
				// a schedule applies to the install (plain / labelled) it was generated from: its owner-label
				// steps are set / change / remove relative to that state
				for _, sc := range byShape[shapeKey(shape)] {
					if (withOwner || !hasOwnerStep(sc.steps)) && (sc.lab == 2 || sc.lab == lab) {
						scheds = append(scheds, sc.steps)
					}
				}
				for i, sc := range mustShape[shapeKey(shape)] {
					if (!withOwner && hasOwnerStep(sc.steps)) || (sc.lab != 2 && sc.lab != lab) {
						continue
					}
					jobs = append(jobs, &job{e: e, n: n, lab: lab == 1, steps: sc.steps, id: fmt.Sprintf("%s/n%d/l%d/k%d", e.id, n, lab, i)})
				}
				if *schedFile != "" && len(scheds) == 0 && len(mustShape[shapeKey(shape)]) == 0 {
					panic(fmt.Sprintf("no TLC schedules for shape %v (kind %s n=%d)", shape, e.id, n))
				}
				idx := r.Perm(len(scheds))
				if *capN > 0 && len(idx) > *capN {
					idx = idx[:*capN]
				}
				sort.Ints(idx)
				for _, i := range idx {
					jobs = append(jobs, &job{e: e, n: n, lab: lab == 1, steps: scheds[i], id: fmt.Sprintf("%s/n%d/l%d/s%d", e.id, n, lab, i)})
				}
				for i := 0; i < *random; i++ {
					jobs = append(jobs, &job{e: e, n: n, lab: lab == 1, steps: randomSchedule(r, shape, *rlen, 3, withOwner, lab), id: fmt.Sprintf("%s/n%d/l%d/r%d-%d", e.id, n, lab, *seed, i)})
				}
				shapesSeen[shapeKey(shape)]++
			}
		}
	}
	scen = len(jobs)
	var wg sync.WaitGroup
	for wk := 0; wk < *workers; wk++ {
		wg.Add(1)
		go func(wk int) {
			defer wg.Done()
			scheme := newScheme()
			for i := wk; i < len(jobs); i += *workers {
				j := jobs[i]
				runOne(&j.buf, scheme, j.e, j.n, j.lab, j.steps, j.id)
			}
		}(wk)
	}
	wg.Wait()
	for _, j := range jobs {
		for _, ev := range j.buf.evs {
			out.Emit(ev)
		}
	}
	if err := out.Close(); err != nil {
		panic(err)
	}
	b, _ := json.Marshal(map[string]any{"scenarios": scen, "kinds": kindsRun, "events": out.Count(), "shapes": shapesSeen})
	fmt.Println(string(b))
}
