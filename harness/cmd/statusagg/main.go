// Command statusagg drives the real status controllers (C20): PodGroupReconciler
// (pkg/podgroupcontroller), QueueReconciler (pkg/queuecontroller) and, with -operator, the
// operator's DeployableOperands.Deploy with the real operands, on a controller-runtime fake client
// with a write-counting interceptor.
//
// Input (-in): ndjson scenarios+histories exported by TLC from spec/StatusAgg.tla, or -random N
// -seed S (random queue trees of depth <= 3, 1-3 pod groups, <= 5 pods, histories of <= 14 events).
// Each history is followed by a settle phase (all pod groups, then the queues bottom-up - or
// top-down for depth rounds) so that the convergence clause of C20 is exercised on every history.
// Output: ndjson trace; every event carries the projection of all PodGroup / Queue statuses in
// milli-units, the number of effective mutating calls and whether any object changed.
package main

import (
	"bufio"
	"context"
	"encoding/json"
	"flag"
	"fmt"
	"math/rand"
	"os"
	"reflect"
	"sort"
	"strings"
	"sync"
	"unsafe"

	"github.com/go-logr/logr"
	v1 "k8s.io/api/core/v1"
	schedulingv1 "k8s.io/api/scheduling/v1"
	"k8s.io/apimachinery/pkg/api/resource"
	metav1 "k8s.io/apimachinery/pkg/apis/meta/v1"
	"k8s.io/apimachinery/pkg/runtime"
	"k8s.io/apimachinery/pkg/types"
	ctrl "sigs.k8s.io/controller-runtime"
	"sigs.k8s.io/controller-runtime/pkg/client"
	"sigs.k8s.io/controller-runtime/pkg/client/fake"
	ctrllog "sigs.k8s.io/controller-runtime/pkg/log"

	v2 "github.com/NVIDIA/KAI-scheduler/pkg/apis/scheduling/v2"
	"github.com/NVIDIA/KAI-scheduler/pkg/apis/scheduling/v2alpha2"
	pgcontrollers "github.com/NVIDIA/KAI-scheduler/pkg/podgroupcontroller/controllers"
	"github.com/NVIDIA/KAI-scheduler/pkg/podgroupcontroller/controllers/cluster_relations"
	qcommon "github.com/NVIDIA/KAI-scheduler/pkg/queuecontroller/common"
	qcontrollers "github.com/NVIDIA/KAI-scheduler/pkg/queuecontroller/controllers"
	"github.com/NVIDIA/KAI-scheduler/pkg/queuecontroller/controllers/childqueues_updater"
	"github.com/NVIDIA/KAI-scheduler/pkg/queuecontroller/controllers/resource_updater"
	qmetrics "github.com/NVIDIA/KAI-scheduler/pkg/queuecontroller/metrics"

	"verif/harness/internal/grouperclient"
	"verif/harness/internal/tracefmt"
)

const ns = "ns"

type qty struct {
	Gpu int `json:"gpu"`
	Cpu int `json:"cpu"`
}

type act struct {
	A string `json:"a"` // Pod | Del | Flip | RecPG | RecQ
	I int    `json:"i"`
}

type scenario struct {
	ID   string `json:"id"`
	Par  []int  `json:"par"`  // queue -> parent queue (0 = root)
	Gq   []int  `json:"gq"`   // pod group -> queue
	Pgof []int  `json:"pgof"` // pod -> pod group
	Preq []qty  `json:"preq"` // pod -> request in milli-units (gpu < 1000: a GPU fraction)
	Pre  []int  `json:"pre"`  // pod group -> initially preemptible (1) or not (0)
	Via  []int  `json:"via"`  // pod group -> how preemptibility is expressed: 0 spec.preemptibility, 1 priority class
	Hist []act  `json:"hist"`
	// Settle: 0 = chosen by position (alternating), 1 = bottom-up, 2 = top-down rounds
	Settle int `json:"settle"`
}

func setUnexported(target any, field string, value any) {
	v := reflect.ValueOf(target).Elem().FieldByName(field)
	if !v.IsValid() {
		panic("harness: field " + field + " not found on " + reflect.TypeOf(target).String())
	}
	reflect.NewAt(v.Type(), unsafe.Pointer(v.UnsafeAddr())).Elem().Set(reflect.ValueOf(value))
}

func newScheme() *runtime.Scheme {
	s := runtime.NewScheme()
	s.AddKnownTypes(v1.SchemeGroupVersion, &v1.Pod{}, &v1.PodList{}, &v1.Node{}, &v1.NodeList{}, &v1.ConfigMap{}, &v1.ConfigMapList{})
	metav1.AddToGroupVersion(s, v1.SchemeGroupVersion)
	_ = schedulingv1.AddToScheme(s)
	_ = v2alpha2.AddToScheme(s)
	_ = v2.AddToScheme(s)
	return s
}

type world struct {
	sc  *scenario
	c   client.WithWatch
	k   *grouperclient.Counter
	pgr *pgcontrollers.PodGroupReconciler
	qr  *qcontrollers.QueueReconciler
	st  []string
	pre []bool
}

func qname(q int) string { return fmt.Sprintf("q%d", q) }
func gname(g int) string { return fmt.Sprintf("pg%d", g) }
func pname(p int) string { return fmt.Sprintf("pod%d", p) }

func (w *world) applyPreemptibility(pg *v2alpha2.PodGroup, g int) {
	if w.sc.Via[g-1] == 0 {
		pg.Spec.PriorityClassName = "train"
		if w.pre[g-1] {
			pg.Spec.Preemptibility = v2alpha2.Preemptible
		} else {
			pg.Spec.Preemptibility = v2alpha2.NonPreemptible
		}
	} else {
		pg.Spec.Preemptibility = ""
		if w.pre[g-1] {
			pg.Spec.PriorityClassName = "train" // 50: preemptible
		} else {
			pg.Spec.PriorityClassName = "build" // 100: non-preemptible
		}
	}
}

func newWorld(sc *scenario, scheme *runtime.Scheme) *world {
	c, k := grouperclient.New(scheme, func(b *fake.ClientBuilder) {
		b.WithStatusSubresource(&v2alpha2.PodGroup{}, &v2.Queue{})
		b.WithIndex(&v1.Pod{}, cluster_relations.PodGroupToPodsIndexer, cluster_relations.PodGroupNameIndexerFunc)
		// same index functions as QueueReconciler.SetupWithManager registers (they are unexported there)
		b.WithIndex(&v2.Queue{}, qcommon.ParentQueueIndexName, func(o client.Object) []string {
			q := o.(*v2.Queue)
			if q.Spec.ParentQueue == "" {
				return []string{}
			}
			return []string{q.Spec.ParentQueue}
		})
		b.WithIndex(&v2alpha2.PodGroup{}, qcommon.PodGroupQueueIndexName, func(o client.Object) []string {
			pg := o.(*v2alpha2.PodGroup)
			if pg.Spec.Queue == "" {
				return []string{}
			}
			return []string{pg.Spec.Queue}
		})
	})
	ctx := context.Background()
	w := &world{sc: sc, c: c, k: k}
	must := func(err error) {
		if err != nil {
			panic(err)
		}
	}
	for _, pc := range []struct {
		n string
		v int32
	}{{"train", 50}, {"build", 100}} {
		must(c.Create(ctx, &schedulingv1.PriorityClass{ObjectMeta: metav1.ObjectMeta{Name: pc.n}, Value: pc.v}))
	}
	for q := range sc.Par {
		qu := &v2.Queue{ObjectMeta: metav1.ObjectMeta{Name: qname(q + 1)}}
		if sc.Par[q] != 0 {
			qu.Spec.ParentQueue = qname(sc.Par[q])
		}
		must(c.Create(ctx, qu))
	}
	w.pre = make([]bool, len(sc.Gq))
	for g := range sc.Gq {
		w.pre[g] = sc.Pre[g] == 1
		pg := &v2alpha2.PodGroup{ObjectMeta: metav1.ObjectMeta{Name: gname(g + 1), Namespace: ns},
			Spec: v2alpha2.PodGroupSpec{MinMember: 1, Queue: qname(sc.Gq[g])}}
		w.applyPreemptibility(pg, g+1)
		must(c.Create(ctx, pg))
	}
	w.st = make([]string, len(sc.Pgof))
	for p := range sc.Pgof {
		w.st[p] = "PU"
		r := sc.Preq[p]
		pod := &v1.Pod{ObjectMeta: metav1.ObjectMeta{Name: pname(p + 1), Namespace: ns, Annotations: map[string]string{"pod-group-name": gname(sc.Pgof[p])}},
			Spec: v1.PodSpec{SchedulerName: "kai-scheduler", Containers: []v1.Container{{Name: "c", Image: "i", Resources: v1.ResourceRequirements{
				Requests: v1.ResourceList{v1.ResourceCPU: *resource.NewMilliQuantity(int64(r.Cpu), resource.DecimalSI)}}}}},
			Status: v1.PodStatus{Phase: v1.PodPending}}
		if r.Gpu%1000 == 0 {
			if r.Gpu > 0 {
				pod.Spec.Containers[0].Resources.Requests["nvidia.com/gpu"] = *resource.NewQuantity(int64(r.Gpu/1000), resource.DecimalSI)
			}
		} else {
			pod.Annotations["gpu-fraction"] = strings.TrimRight(strings.TrimRight(fmt.Sprintf("%.3f", float64(r.Gpu)/1000), "0"), ".")
		}
		must(c.Create(ctx, pod))
	}
	w.pgr = &pgcontrollers.PodGroupReconciler{Client: c, Scheme: scheme}
	w.qr = &qcontrollers.QueueReconciler{Client: c, Scheme: scheme}
	setUnexported(w.qr, "resourceUpdater", resource_updater.ResourceUpdater{Client: c})
	setUnexported(w.qr, "childQueuesUpdater", childqueues_updater.ChildQueuesUpdater{Client: c})
	return w
}

func milli(rl v1.ResourceList) (qty, int) {
	other := 0
	out := qty{}
	for k, v := range rl {
		switch string(k) {
		case "nvidia.com/gpu":
			out.Gpu = int(v.MilliValue())
		case "cpu":
			out.Cpu = int(v.MilliValue())
		default:
			other++
		}
	}
	return out, other
}

type stat struct {
	Req    qty `json:"req"`
	Alloc  qty `json:"alloc"`
	Nonpre qty `json:"nonpre"`
}

// snapshot: status projection and a content fingerprint of every PodGroup and Queue (resourceVersion
// and managed fields excluded).
func (w *world) snapshot() (pgst, qst []stat, other int, finger string) {
	ctx := context.Background()
	fp := []string{}
	for g := range w.sc.Gq {
		var pg v2alpha2.PodGroup
		if err := w.c.Get(ctx, types.NamespacedName{Namespace: ns, Name: gname(g + 1)}, &pg); err != nil {
			panic(err)
		}
		rs := pg.Status.ResourcesStatus
		a, o1 := milli(rs.Requested)
		b, o2 := milli(rs.Allocated)
		c, o3 := milli(rs.AllocatedNonPreemptible)
		other += o1 + o2 + o3
		pgst = append(pgst, stat{a, b, c})
		pg.ResourceVersion, pg.ManagedFields = "", nil
		j, _ := json.Marshal(pg)
		fp = append(fp, string(j))
	}
	for q := range w.sc.Par {
		var qu v2.Queue
		if err := w.c.Get(ctx, types.NamespacedName{Name: qname(q + 1)}, &qu); err != nil {
			panic(err)
		}
		a, o1 := milli(qu.Status.Requested)
		b, o2 := milli(qu.Status.Allocated)
		c, o3 := milli(qu.Status.AllocatedNonPreemptible)
		other += o1 + o2 + o3
		qst = append(qst, stat{a, b, c})
		qu.ResourceVersion, qu.ManagedFields = "", nil
		j, _ := json.Marshal(qu)
		fp = append(fp, string(j))
	}
	return pgst, qst, other, strings.Join(fp, "\n")
}

func nextState(s string) string {
	switch s {
	case "PU":
		return "PS"
	case "PS":
		return "R"
	default:
		return "D"
	}
}

func (w *world) event(a act) map[string]any {
	ctx := context.Background()
	ev := map[string]any{"ev": a.A, "i": a.I, "st": "", "pre": 0, "w": 0, "ch": 0, "empty": 0, "err": "", "calls": ""}
	fail := func(err error) {
		if err != nil && ev["err"] == "" {
			ev["err"] = err.Error()
		}
	}
	switch a.A {
	case "Pod":
		p := a.I
		ns_ := nextState(w.st[p-1])
		w.st[p-1] = ns_
		var pod v1.Pod
		fail(w.c.Get(ctx, types.NamespacedName{Namespace: ns, Name: pname(p)}, &pod))
		switch ns_ {
		case "PS": // the scheduler/binder bound the pod: node name, PodScheduled, received-resource-type for fractions
			pod.Spec.NodeName = "node-1"
			pod.Status.Conditions = []v1.PodCondition{{Type: v1.PodScheduled, Status: v1.ConditionTrue}}
			if _, frac := pod.Annotations["gpu-fraction"]; frac {
				pod.Annotations["received-resource-type"] = "Fraction"
			} else {
				pod.Annotations["received-resource-type"] = "Regular"
			}
		case "R":
			pod.Status.Phase = v1.PodRunning
		case "D":
			pod.Status.Phase = v1.PodSucceeded
		}
		status := pod.Status.DeepCopy()
		fail(w.c.Update(ctx, &pod))
		pod.Status = *status
		fail(w.c.Status().Update(ctx, &pod)) // pods have a status sub-resource in the fake client
		ev["st"] = ns_
	case "Del": // the pod object disappears (garbage collection, scale-down, eviction)
		w.st[a.I-1] = "X"
		fail(w.c.Delete(ctx, &v1.Pod{ObjectMeta: metav1.ObjectMeta{Namespace: ns, Name: pname(a.I)}}))
		ev["st"] = "X"
	case "Flip":
		g := a.I
		w.pre[g-1] = !w.pre[g-1]
		var pg v2alpha2.PodGroup
		fail(w.c.Get(ctx, types.NamespacedName{Namespace: ns, Name: gname(g)}, &pg))
		w.applyPreemptibility(&pg, g)
		fail(w.c.Update(ctx, &pg))
		if w.pre[g-1] {
			ev["pre"] = 1
		}
	case "RecPG", "RecQ":
		_, _, _, before := w.snapshot()
		w.k.Start()
		var err error
		if a.A == "RecPG" {
			_, err = w.pgr.Reconcile(ctx, ctrl.Request{NamespacedName: types.NamespacedName{Namespace: ns, Name: gname(a.I)}})
		} else {
			_, err = w.qr.Reconcile(ctx, ctrl.Request{NamespacedName: types.NamespacedName{Name: qname(a.I)}})
		}
		cnt := w.k.Stop()
		fail(err)
		_, _, _, after := w.snapshot()
		ev["w"], ev["empty"] = cnt.Effective(), cnt.EmptyPatch
		ev["calls"] = fmt.Sprintf("create=%d update=%d patch=%d delete=%d %s", cnt.Create, cnt.Update, cnt.Patch, cnt.Delete, cnt.KindsString())
		if before != after {
			ev["ch"] = 1
		}
	}
	pgst, qst, other, _ := w.snapshot()
	ev["pgst"], ev["qst"], ev["other"] = pgst, qst, other
	return ev
}

func depthOf(par []int, q int) int {
	d := 1
	for par[q-1] != 0 {
		q = par[q-1]
		d++
	}
	return d
}

func settle(sc *scenario, topDown bool) []act {
	out := []act{}
	for g := range sc.Gq {
		out = append(out, act{"RecPG", g + 1})
	}
	qs := make([]int, len(sc.Par))
	maxd := 0
	for i := range qs {
		qs[i] = i + 1
		if d := depthOf(sc.Par, i+1); d > maxd {
			maxd = d
		}
	}
	if !topDown {
		sort.SliceStable(qs, func(i, j int) bool { return depthOf(sc.Par, qs[i]) > depthOf(sc.Par, qs[j]) })
		for _, q := range qs {
			out = append(out, act{"RecQ", q})
		}
		return out
	}
	sort.SliceStable(qs, func(i, j int) bool { return depthOf(sc.Par, qs[i]) < depthOf(sc.Par, qs[j]) })
	for r := 0; r < maxd; r++ { // the adversarial order needs depth rounds
		for _, q := range qs {
			out = append(out, act{"RecQ", q})
		}
	}
	// a further round must be a fixpoint
	for _, q := range qs {
		out = append(out, act{"RecQ", q})
	}
	return out
}

type emitter interface{ Emit(map[string]any) }
type buffer struct{ evs []map[string]any }

func (b *buffer) Emit(ev map[string]any) { b.evs = append(b.evs, ev) }

func histString(h []act) string {
	parts := []string{}
	for _, a := range h {
		parts = append(parts, fmt.Sprintf("%s%d", a.A, a.I))
	}
	return strings.Join(parts, " ")
}

func runOne(out emitter, scheme *runtime.Scheme, sc *scenario, settleMode int) {
	w := newWorld(sc, scheme)
	hist := append([]act{}, sc.Hist...)
	if settleMode > 0 {
		hist = append(hist, settle(sc, settleMode == 2)...)
	}
	out.Emit(map[string]any{"ev": "Scenario", "id": sc.ID, "class": "history", "par": sc.Par, "gq": sc.Gq, "pgof": sc.Pgof, "preq": sc.Preq, "pre": sc.Pre,
		"via": sc.Via, "hist": histString(sc.Hist), "settle": settleMode})
	for _, a := range hist {
		if (a.A == "Pod" && (w.st[a.I-1] == "D" || w.st[a.I-1] == "X")) || (a.A == "Del" && w.st[a.I-1] == "X") {
			continue
		}
		out.Emit(w.event(a))
	}
}

func randomScenario(r *rand.Rand, id string, maxLen int) *scenario {
	sc := &scenario{ID: id}
	nq := 1 + r.Intn(5)
	for q := 1; q <= nq; q++ {
		if q == 1 {
			sc.Par = append(sc.Par, 0)
			continue
		}
		for {
			p := r.Intn(q) // 0 = another root
			if p == 0 || depthOf(sc.Par, p) < 3 {
				sc.Par = append(sc.Par, p)
				break
			}
		}
	}
	ng := 1 + r.Intn(3)
	for g := 0; g < ng; g++ {
		sc.Gq = append(sc.Gq, 1+r.Intn(nq)) // also non-leaf queues may hold pod groups
		sc.Pre = append(sc.Pre, r.Intn(2))
		sc.Via = append(sc.Via, r.Intn(2))
	}
	np := 1 + r.Intn(5)
	for p := 0; p < np; p++ {
		sc.Pgof = append(sc.Pgof, 1+r.Intn(ng))
		sc.Preq = append(sc.Preq, qty{Gpu: []int{1000, 2000, 500, 250, 0, 100}[r.Intn(6)], Cpu: []int{100, 250, 1000, 1500}[r.Intn(4)]})
	}
	n := 2 + r.Intn(maxLen-1)
	for i := 0; i < n; i++ {
		switch r.Intn(8) {
		case 7:
			sc.Hist = append(sc.Hist, act{"Del", 1 + r.Intn(np)})
		case 0, 1, 2:
			sc.Hist = append(sc.Hist, act{"Pod", 1 + r.Intn(np)})
		case 3:
			sc.Hist = append(sc.Hist, act{"Flip", 1 + r.Intn(ng)})
		case 4, 5:
			sc.Hist = append(sc.Hist, act{"RecPG", 1 + r.Intn(ng)})
		default:
			sc.Hist = append(sc.Hist, act{"RecQ", 1 + r.Intn(nq)})
		}
	}
	return sc
}

func main() {
	in := flag.String("in", "", "ndjson scenarios with histories (from TLC)")
	outFile := flag.String("out", "", "trace ndjson")
	seed := flag.Int64("seed", 1, "seed")
	random := flag.Int("random", 0, "number of random scenarios")
	rlen := flag.Int("rlen", 14, "max length of random histories")
	workers := flag.Int("workers", 6, "parallel worlds")
	operator := flag.Bool("operator", false, "run the operator Deploy fixpoint experiment instead")
	flag.BoolVar(&debugOperator, "debug-operator", false, "print stored vs desired object for every Update the operator issues")
	flag.Parse()
	ctrllog.SetLogger(logr.Discard())
	qmetrics.InitMetrics("kai", map[string]string{}, map[string]string{})

	out, err := tracefmt.Create(*outFile)
	if err != nil {
		panic(err)
	}
	if *operator {
		runOperator(out, *seed)
		if err := out.Close(); err != nil {
			panic(err)
		}
		return
	}
	scs := []*scenario{}
	if *in != "" {
		f, err := os.Open(*in)
		if err != nil {
			panic(err)
		}
		s := bufio.NewScanner(f)
		s.Buffer(make([]byte, 1<<20), 1<<26)
		i := 0
		for s.Scan() {
			sc := &scenario{}
			if err := json.Unmarshal(s.Bytes(), sc); err != nil {
				panic(err)
			}
			if sc.ID == "" {
				sc.ID = fmt.Sprintf("tlc-%d", i)
			}
			if len(sc.Via) == 0 {
				for g := range sc.Gq {
					sc.Via = append(sc.Via, (i+g)%2)
				}
			}
			scs = append(scs, sc)
			i++
		}
	}
	r := rand.New(rand.NewSource(*seed))
	for i := 0; i < *random; i++ {
		scs = append(scs, randomScenario(r, fmt.Sprintf("rnd-%d-%d", *seed, i), *rlen))
	}
	bufs := make([]buffer, len(scs))
	var wg sync.WaitGroup
	for wk := 0; wk < *workers; wk++ {
		wg.Add(1)
		go func(wk int) {
			defer wg.Done()
			scheme := newScheme()
			for i := wk; i < len(scs); i += *workers {
				mode := scs[i].Settle
				if mode == 0 {
					mode = 1 + i%2
				}
				runOne(&bufs[i], scheme, scs[i], mode)
			}
		}(wk)
	}
	wg.Wait()
	for i := range bufs {
		for _, ev := range bufs[i].evs {
			out.Emit(ev)
		}
	}
	if err := out.Close(); err != nil {
		panic(err)
	}
	fmt.Printf("{\"scenarios\": %d, \"events\": %d}\n", len(scs), out.Count())
}
