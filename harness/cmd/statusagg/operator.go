package main

// C20_Operator: the operator's deployment of the components is a fixpoint determined only by its
// configuration. The real operands of the ConfigReconciler (controller.ConfigReconcilerOperands) are
// deployed by the real DeployableOperands.Deploy on the controller-runtime fake client (the
// collectables' own InitWithFakeClientBuilder hooks register the owner indexes), several rounds per
// config from a small lattice (defaults, replica count 2, one component disabled, one image
// override), each config in two fresh stores. Logged per round: effective mutating calls and the
// set + content digest of every object the operator owns.

import (
	"context"
	"crypto/sha1"
	"encoding/json"
	"fmt"
	"sort"
	"strings"

	nvidiav1 "github.com/NVIDIA/gpu-operator/api/nvidia/v1"
	monitoringv1 "github.com/prometheus-operator/prometheus-operator/pkg/apis/monitoring/v1"
	admissionv1 "k8s.io/api/admissionregistration/v1"
	corev1 "k8s.io/api/core/v1"
	apiextensionsv1 "k8s.io/apiextensions-apiserver/pkg/apis/apiextensions/v1"
	metav1 "k8s.io/apimachinery/pkg/apis/meta/v1"
	"k8s.io/apimachinery/pkg/apis/meta/v1/unstructured"
	"k8s.io/apimachinery/pkg/runtime"
	"k8s.io/apimachinery/pkg/runtime/schema"
	clientgoscheme "k8s.io/client-go/kubernetes/scheme"
	"k8s.io/utils/ptr"
	"sigs.k8s.io/controller-runtime/pkg/client"
	"sigs.k8s.io/controller-runtime/pkg/client/fake"

	kaiv1 "github.com/NVIDIA/KAI-scheduler/pkg/apis/kai/v1"
	kaiadmission "github.com/NVIDIA/KAI-scheduler/pkg/apis/kai/v1/admission"
	kaibinder "github.com/NVIDIA/KAI-scheduler/pkg/apis/kai/v1/binder"
	kaicommon "github.com/NVIDIA/KAI-scheduler/pkg/apis/kai/v1/common"
	"github.com/NVIDIA/KAI-scheduler/pkg/apis/kai/v1/pod_grouper"
	v2 "github.com/NVIDIA/KAI-scheduler/pkg/apis/scheduling/v2"
	"github.com/NVIDIA/KAI-scheduler/pkg/operator/controller"
	"github.com/NVIDIA/KAI-scheduler/pkg/operator/operands/deployable"
	"github.com/NVIDIA/KAI-scheduler/pkg/operator/operands/known_types"

	"verif/harness/internal/grouperclient"
	"verif/harness/internal/tracefmt"
)

var debugOperator = false

type opConfig struct {
	name string
	spec func() kaiv1.ConfigSpec
}

func opConfigs() []opConfig {
	return []opConfig{
		{"defaults", func() kaiv1.ConfigSpec { return kaiv1.ConfigSpec{} }},
		{"replicas2", func() kaiv1.ConfigSpec {
			return kaiv1.ConfigSpec{Global: &kaiv1.GlobalConfig{ReplicaCount: ptr.To(int32(2))}}
		}},
		{"podgrouper-disabled", func() kaiv1.ConfigSpec {
			return kaiv1.ConfigSpec{PodGrouper: &pod_grouper.PodGrouper{Service: &kaicommon.Service{Enabled: ptr.To(false)}}}
		}},
		{"podgrouper-image", func() kaiv1.ConfigSpec {
			return kaiv1.ConfigSpec{PodGrouper: &pod_grouper.PodGrouper{Service: &kaicommon.Service{Image: &kaicommon.Image{Tag: ptr.To("v9.9.9")}}}}
		}},
		{"placement", func() kaiv1.ConfigSpec {
			return kaiv1.ConfigSpec{Global: &kaiv1.GlobalConfig{NodeSelector: map[string]string{"pool": "infra"},
				Tolerations: []corev1.Toleration{{Key: "dedicated", Operator: corev1.TolerationOpEqual, Value: "infra", Effect: corev1.TaintEffectNoSchedule}}}}
		}},
		// round 3: the other operands' own knobs, and an operand switched off (its objects must go away on an edit
		// and a fresh install must not create them)
		{"binder-cdi", func() kaiv1.ConfigSpec {
			return kaiv1.ConfigSpec{Binder: &kaibinder.Binder{CDIEnabled: ptr.To(true), Replicas: ptr.To(int32(3))}}
		}},
		{"binder-disabled", func() kaiv1.ConfigSpec {
			return kaiv1.ConfigSpec{Binder: &kaibinder.Binder{Service: &kaicommon.Service{Enabled: ptr.To(false)}}}
		}},
		{"admission-gpusharing", func() kaiv1.ConfigSpec {
			return kaiv1.ConfigSpec{Admission: &kaiadmission.Admission{GPUSharing: ptr.To(true), Replicas: ptr.To(int32(2))}}
		}},
		{"pullsecrets-antiaffinity", func() kaiv1.ConfigSpec {
			return kaiv1.ConfigSpec{Global: &kaiv1.GlobalConfig{ImagePullSecrets: []string{"regcred"}, RequireDefaultPodAntiAffinityTerm: ptr.To(true),
				ReplicaCount: ptr.To(int32(3))}}
		}},
	}
}

// specDigest: what the deployed workloads look like, independent of the store they live in (no uids, versions,
// time stamps, generated certificates): per Deployment / DaemonSet / Service / ServiceAccount / ConfigMap its labels,
// annotations and spec / data. Two stores that hold the same configuration must agree on it whatever their history.
func specDigest(c client.Client) string {
	h := sha1.New()
	for _, gvk := range ownedKinds {
		switch gvk.Kind {
		case "Deployment", "DaemonSet", "Service", "ServiceAccount", "ConfigMap":
		default:
			continue
		}
		l := &unstructured.UnstructuredList{}
		l.SetGroupVersionKind(schema.GroupVersionKind{Group: gvk.Group, Version: gvk.Version, Kind: gvk.Kind + "List"})
		if err := c.List(context.Background(), l); err != nil {
			continue
		}
		sort.Slice(l.Items, func(i, j int) bool {
			return l.Items[i].GetNamespace()+"/"+l.Items[i].GetName() < l.Items[j].GetNamespace()+"/"+l.Items[j].GetName()
		})
		for _, it := range l.Items {
			o := map[string]any{"kind": gvk.Kind, "ns": it.GetNamespace(), "name": it.GetName(), "labels": it.GetLabels(), "annotations": it.GetAnnotations(),
				"spec": it.Object["spec"], "data": it.Object["data"]}
			b, _ := json.Marshal(o)
			h.Write(b)
		}
	}
	return fmt.Sprintf("%x", h.Sum(nil))
}

// the kinds the KAIConfig collectables own
var ownedKinds = []schema.GroupVersionKind{
	{Group: "apps", Version: "v1", Kind: "Deployment"}, {Group: "apps", Version: "v1", Kind: "DaemonSet"},
	{Group: "", Version: "v1", Kind: "ServiceAccount"}, {Group: "", Version: "v1", Kind: "ConfigMap"}, {Group: "", Version: "v1", Kind: "Service"},
	{Group: "", Version: "v1", Kind: "Secret"},
	{Group: "admissionregistration.k8s.io", Version: "v1", Kind: "MutatingWebhookConfiguration"},
	{Group: "admissionregistration.k8s.io", Version: "v1", Kind: "ValidatingWebhookConfiguration"},
	{Group: "apiextensions.k8s.io", Version: "v1", Kind: "CustomResourceDefinition"},
	{Group: "monitoring.coreos.com", Version: "v1", Kind: "Prometheus"}, {Group: "monitoring.coreos.com", Version: "v1", Kind: "ServiceMonitor"},
}

func storeDigest(c client.Client) (objects string, digest string, n int) {
	names := []string{}
	h := sha1.New()
	for _, gvk := range ownedKinds {
		l := &unstructured.UnstructuredList{}
		l.SetGroupVersionKind(schema.GroupVersionKind{Group: gvk.Group, Version: gvk.Version, Kind: gvk.Kind + "List"})
		if err := c.List(context.Background(), l); err != nil {
			continue
		}
		sort.Slice(l.Items, func(i, j int) bool {
			return l.Items[i].GetNamespace()+"/"+l.Items[i].GetName() < l.Items[j].GetNamespace()+"/"+l.Items[j].GetName()
		})
		for _, it := range l.Items {
			names = append(names, gvk.Kind+":"+it.GetNamespace()+"/"+it.GetName())
			it.SetResourceVersion("")
			it.SetManagedFields(nil)
			b, _ := json.Marshal(it.Object)
			h.Write(b)
		}
	}
	return strings.Join(names, ","), fmt.Sprintf("%x", h.Sum(nil)), len(names)
}

func runOperator(out *tracefmt.Writer, seed int64) {
	firstSet := map[string]string{} // config -> object set of the first store
	defer func() {
		if r := recover(); r != nil {
			out.Emit(map[string]any{"ev": "OperatorSkipped", "why": fmt.Sprintf("operator Deploy cannot run on the fake client: panic: %v", r)})
		}
	}()
	ctx := context.Background()
	freshSpec := map[string]string{} // config -> spec digest of a fresh install (first store, last round)
	type hist struct {
		name  string
		steps []opConfig
	}
	var hists []hist
	cfgs := opConfigs()
	for _, oc := range cfgs {
		hists = append(hists, hist{oc.name, []opConfig{oc}})
	}
	// configuration histories: A is installed and reconciled, then the Config is edited to B. The cluster must end
	// up like a fresh install of B (every ordered pair with the defaults, and placement <-> each)
	for _, a := range cfgs {
		for _, b := range cfgs {
			if a.name != b.name && (a.name == "defaults" || b.name == "defaults" || a.name == "placement" || b.name == "placement") {
				hists = append(hists, hist{a.name + ">" + b.name, []opConfig{a, b}})
			}
		}
	}
	for _, hs := range hists {
		oc := hs.steps[0]
		nstores := 2
		if len(hs.steps) > 1 {
			nstores = 1
		}
		for store := 1; store <= nstores; store++ {
			scheme := runtime.NewScheme()
			_ = clientgoscheme.AddToScheme(scheme)
			_ = kaiv1.AddToScheme(scheme)
			_ = v2.AddToScheme(scheme)
			_ = apiextensionsv1.AddToScheme(scheme)
			_ = monitoringv1.AddToScheme(scheme)
			_ = nvidiav1.AddToScheme(scheme)
			kaiConfig := &kaiv1.Config{
				TypeMeta:   metav1.TypeMeta{Kind: "Config", APIVersion: kaiv1.GroupVersion.String()},
				ObjectMeta: metav1.ObjectMeta{Name: known_types.SingletonInstanceName, UID: "uid-kai-config"},
				Spec:       oc.spec(),
			}
			c, k := grouperclient.New(scheme, func(b *fake.ClientBuilder) {
				b.WithObjects(kaiConfig.DeepCopy())
				for _, col := range known_types.KAIConfigRegisteredCollectible {
					if col.InitWithFakeClientBuilder != nil {
						col.InitWithFakeClientBuilder(b)
					}
				}
			})
			d := deployable.New(controller.ConfigReconcilerOperands, known_types.KAIConfigRegisteredCollectible)
			d.RegisterFieldsInheritFromClusterObjects(&admissionv1.ValidatingWebhookConfiguration{}, known_types.ValidatingWebhookConfigurationFieldInherit)
			d.RegisterFieldsInheritFromClusterObjects(&admissionv1.MutatingWebhookConfiguration{}, known_types.MutatingWebhookConfigurationFieldInherit)
			if debugOperator {
				k.OnWrite = func(verb string, o runtime.Object) {
					co, ok := o.(client.Object)
					if !ok || verb != "update" {
						return
					}
					cur := co.DeepCopyObject().(client.Object)
					if err := c.Get(ctx, client.ObjectKeyFromObject(co), cur); err != nil {
						return
					}
					a, _ := json.MarshalIndent(cur, "", " ")
					b, _ := json.MarshalIndent(co, "", " ")
					fmt.Printf("UPDATE %T %s\n--- stored\n%s\n--- desired\n%s\n", co, co.GetName(), a, b)
				}
			}
			out.Emit(map[string]any{"ev": "Scenario", "id": fmt.Sprintf("operator/%s/store%d", hs.name, store), "class": "operator", "par": []int{0}, "gq": []int{1},
				"pgof": []int{1}, "preq": []qty{{0, 0}}, "pre": []int{0}, "via": []int{0}, "hist": "Deploy x3 per config, configs=" + hs.name, "settle": 0})
			prevObjs, prevDig := "", ""
			for si, stepCfg := range hs.steps {
				oc = stepCfg
				kaiConfig.Spec = oc.spec()
				if si > 0 {
					stored := &kaiv1.Config{}
					if err := c.Get(ctx, client.ObjectKeyFromObject(kaiConfig), stored); err == nil {
						stored.Spec = oc.spec()
						_ = c.Update(ctx, stored)
					}
					prevObjs, prevDig = "", ""
				}
				for round := 1; round <= 3; round++ {
					cfg := kaiConfig.DeepCopy() // the reconciler reads the Config afresh and defaults it every time
					cfg.Spec.SetDefaultsWhereNeeded()
					k.Start()
					err := d.Deploy(ctx, c, cfg, cfg)
					cnt := k.Stop()
					errs := ""
					if err != nil {
						errs = err.Error()
					}
					objs, dig, n := storeDigest(c)
					ch := 0
					if round > 1 && (objs != prevObjs || dig != prevDig) {
						ch = 1
					}
					if fs, ok := firstSet[oc.name]; ok && fs != objs {
						ch = 1
					} else if !ok {
						firstSet[oc.name] = objs
					}
					// determined only by the configuration: the same workloads as a fresh install of this config
					sd := specDigest(c)
					if round == 3 {
						if fd, ok := freshSpec[oc.name]; ok && fd != sd {
							ch = 1
						} else if !ok && len(hs.steps) == 1 {
							freshSpec[oc.name] = sd
						}
					}
					prevObjs, prevDig = objs, dig
					out.Emit(map[string]any{"ev": "Deploy", "config": oc.name, "store": store, "round": round, "step": si, "err": errs, "w": cnt.Effective(), "ch": ch,
						"calls":   fmt.Sprintf("create=%d update=%d patch=%d delete=%d %s", cnt.Create, cnt.Update, cnt.Patch, cnt.Delete, cnt.KindsString()),
						"objects": objs, "digest": dig, "nobjects": n})
				}
			}
		}
	}
}
