// Command nodeacct drives a REAL node_info.NodeInfo with real pod_info.PodInfo objects
// (properties C14 node part, C02 node part; specification spec/NodeAcct.tla).
//
// Modes:
//
//	-edges f   labelled transitions exported by TLC from NodeAcct.tla ({"a":label,"s":id,"t":id}
//	           per line). Paths from Init are rebuilt over these edges (shortest path to every edge,
//	           then greedily extended over not yet covered edges), every path is executed on a fresh
//	           NodeInfo; after every step the real projection is compared with the model state `t`
//	           (field mm) and logged.
//	-in f      scenarios {"id","n","gpumem","cpu","maxpods","kinds":[...],"ops":[{"op","p","st","grp"}]}
//	           (replay of a recorded scenario). Operations (vocabulary of NodeAcct.tla): SnapAdd, Allocate,
//	           Pipeline, PipelineOnly, ConvPipeline (AddTask); Evict (UpdateTask -> Releasing); Unevict
//	           (UpdateTask, or AddTask if the pod is not on the node); Unallocate, Unpipeline (RemoveTask);
//	           Consolidate (ConsolidateSharedPodInfoToDifferentGPU); UnpipelineMoved (RemoveTask +
//	           RestoreSharedPodInfoOnPreviousGPU); OpenSession, ConvertStart, Commit (no node call);
//	           Place (directed scenarios: the real fit functions decide, see placeDirected).
//	-random N  N seeded random sessions: a feasible snapshot followed by statements shaped like the
//	           allocate action (Allocate/Pipeline, ConvertAllAllocatedToPipelined, Rollback, Commit,
//	           failed bind) and like the solvers (Evict, pipeline-only placement incl. Unevict and
//	           ConsolidateSharedPodInfoToDifferentGPU, Rollback/Discard, Commit). Placement decisions
//	           are taken with the node's own IsTaskAllocatable/IsTaskAllocatableOnReleasingOrIdle/
//	           IsTaskFitOnGpuGroup and the real gpu_sharing.GetNodePreferableGpuForSharing.
//
// Output: ndjson trace; per scenario a Scenario line and one Step line per NodeInfo call with the
// projection of the real NodeInfo (integers and strings only; cpu in milli-cores, gpu in milli-GPUs).
package main

import (
	"bufio"
	"encoding/json"
	"flag"
	"fmt"
	"math"
	"math/rand"
	"os"
	"sort"
	"strconv"
	"strings"

	v1 "k8s.io/api/core/v1"
	"k8s.io/apimachinery/pkg/api/resource"
	metav1 "k8s.io/apimachinery/pkg/apis/meta/v1"
	"k8s.io/apimachinery/pkg/types"

	commonconstants "github.com/NVIDIA/KAI-scheduler/pkg/common/constants"
	"github.com/NVIDIA/KAI-scheduler/pkg/scheduler/api/common_info"
	"github.com/NVIDIA/KAI-scheduler/pkg/scheduler/api/node_info"
	"github.com/NVIDIA/KAI-scheduler/pkg/scheduler/api/pod_info"
	"github.com/NVIDIA/KAI-scheduler/pkg/scheduler/api/pod_status"
	"github.com/NVIDIA/KAI-scheduler/pkg/scheduler/api/resource_info"
	"github.com/NVIDIA/KAI-scheduler/pkg/scheduler/conf"
	"github.com/NVIDIA/KAI-scheduler/pkg/scheduler/gpu_sharing"
	"github.com/NVIDIA/KAI-scheduler/pkg/scheduler/log"

	"verif/harness/internal/tracefmt"
)

// ---------------------------------------------------------------------------------------------
// scenario vocabulary
// ---------------------------------------------------------------------------------------------

type kind struct {
	K    string `json:"k"`    // cpu | whole | frac | resv
	Cpu  int64  `json:"cpu"`  // milli-cores
	Gpus int64  `json:"gpus"` // whole GPUs requested (whole, resv)
	Mem  int64  `json:"mem"`  // GPU memory per device (frac), in the node's units
	Dev  int64  `json:"dev"`  // number of devices (frac)
	// how a frac pod states its request: 0 = gpu-fraction annotation, 1 = gpu-memory annotation
	ByMem int64 `json:"bymem"`
}

type op struct {
	Op  string   `json:"op"`
	P   int      `json:"p"`
	St  string   `json:"st"`
	Grp []string `json:"grp"`
}

type scenario struct {
	ID      string `json:"id"`
	Class   string `json:"class"`
	N       int64  `json:"n"`
	GpuMem  int64  `json:"gpumem"`
	Cpu     int64  `json:"cpu"`
	MaxPods int64  `json:"maxpods"`
	Kinds   []kind `json:"kinds"`
	Ops     []op   `json:"ops"`
	// edges mode: the first Silent ops are a prefix that is logged and judged in another scenario;
	// they are executed but not logged, a Restore line carries the state reached
	Silent int `json:"silent"`
}

var statusByName = map[string]pod_status.PodStatus{
	"Allocated": pod_status.Allocated, "Pipelined": pod_status.Pipelined, "Binding": pod_status.Binding,
	"Bound": pod_status.Bound, "Running": pod_status.Running, "Releasing": pod_status.Releasing,
	"Pending": pod_status.Pending,
}

type noAffinity struct{}

func (noAffinity) AddPod(*v1.Pod)                   {}
func (noAffinity) RemovePod(*v1.Pod) error          { return nil }
func (noAffinity) HasPodsWithPodAffinity() bool     { return false }
func (noAffinity) HasPodsWithPodAntiAffinity() bool { return false }
func (noAffinity) Name() string                     { return "verif" }

// ---------------------------------------------------------------------------------------------
// the world: one real NodeInfo + the session's task objects + the harness' own book of entries
// ---------------------------------------------------------------------------------------------

type entry struct {
	St  string
	Grp []string
	Nom int // 1: Releasing entry that was only nominated (Pipelined) before it was evicted
}

type world struct {
	sc      *scenario
	ni      *node_info.NodeInfo
	vm      *resource_info.ResourceVectorMap
	tasks   map[int]*pod_info.PodInfo
	ent     map[int]*entry // intended accounting entries (what the session believes is on the node)
	ghost   map[int]*entry // terminating incarnation left behind by Consolidate
	events  []map[string]any
	groups  map[string]bool
	dec     int // 1: the real fit functions take the decision of the operation about to be executed
	restore bool
	nfresh  int
}

// decision re-takes a placement decision with the REAL code (actions/common.allocateTaskToNode on this
// node): FittingNode, then for fraction pods gpu_sharing.GetNodePreferableGpuForSharing on a fitting
// list that starts with the chosen groups (the order is up to the GpuOrderFn plugins), for the others
// IsTaskAllocatable. Returns 1 if the real code allocates/nominates exactly as the operation says.
func (w *world) decision(o op) int {
	var pipelineOnly bool
	switch o.Op {
	case "Allocate", "Pipeline":
		pipelineOnly = false
	case "PipelineOnly", "Consolidate":
		pipelineOnly = true
	default:
		return 1
	}
	t, ni := w.tasks[o.P], w.ni
	if !ni.IsTaskAllocatableOnReleasingOrIdle(t) {
		return 0
	}
	if !(t.IsFractionRequest() || t.IsMemoryRequest()) {
		return b2i((!pipelineOnly && ni.IsTaskAllocatable(t)) == (o.Op == "Allocate"))
	}
	var list []string
	nfresh := 0
	for _, g := range o.Grp {
		if ni.UsedSharedGPUsMemory[g] != 0 {
			if !ni.IsTaskFitOnGpuGroup(t.ResReq, g) {
				return 0
			}
			list = append(list, g)
		} else {
			nfresh++
		}
	}
	slots := 0
	if ni.Idle.GPUs() > 0 || ni.Releasing.GPUs() > 0 {
		slots = int(ni.Idle.GPUs()) + int(ni.Releasing.GPUs())
	}
	if nfresh > slots {
		return 0
	}
	for i := 0; i < nfresh; i++ {
		list = append(list, pod_info.WholeGpuIndicator)
	}
	sel := gpu_sharing.GetNodePreferableGpuForSharing(list, ni, t, pipelineOnly)
	if sel == nil || len(sel.Groups) != len(o.Grp) {
		return 0
	}
	return b2i((pipelineOnly || sel.IsReleasing) == (o.Op != "Allocate"))
}

func newWorld(sc *scenario) *world {
	alloc := v1.ResourceList{
		v1.ResourceCPU:                *resource.NewMilliQuantity(sc.Cpu, resource.DecimalSI),
		v1.ResourceMemory:             resource.MustParse("64Gi"),
		resource_info.GPUResourceName: *resource.NewQuantity(sc.N, resource.DecimalSI),
		v1.ResourcePods:               *resource.NewQuantity(sc.MaxPods, resource.DecimalSI),
	}
	node := &v1.Node{
		ObjectMeta: metav1.ObjectMeta{Name: "n1", Labels: map[string]string{
			commonconstants.GpuCountLabel: strconv.FormatInt(sc.N, 10),
			node_info.GpuMemoryLabel:      strconv.FormatInt(sc.GpuMem, 10),
		}, Annotations: map[string]string{}},
		Status: v1.NodeStatus{Capacity: alloc, Allocatable: alloc},
	}
	vm := resource_info.NewResourceVectorMap()
	vm.AddResourceList(alloc)
	w := &world{sc: sc, vm: vm, tasks: map[int]*pod_info.PodInfo{}, ent: map[int]*entry{}, ghost: map[int]*entry{},
		groups: map[string]bool{}, dec: 1}
	w.ni = node_info.NewNodeInfo(node, noAffinity{}, vm)
	for i := range sc.Kinds {
		w.tasks[i+1] = w.newTask(i + 1)
	}
	return w
}

func (w *world) newTask(p int) *pod_info.PodInfo {
	k := w.sc.Kinds[p-1]
	req := v1.ResourceList{
		v1.ResourceCPU:    *resource.NewMilliQuantity(k.Cpu, resource.DecimalSI),
		v1.ResourceMemory: resource.MustParse("1Gi"),
	}
	ann := map[string]string{commonconstants.PodGroupAnnotationForPod: "pg-" + strconv.Itoa(p)}
	labels := map[string]string{}
	switch k.K {
	case "whole":
		req[resource_info.GPUResourceName] = *resource.NewQuantity(k.Gpus, resource.DecimalSI)
	case "resv":
		req[resource_info.GPUResourceName] = *resource.NewQuantity(k.Gpus, resource.DecimalSI)
		labels[commonconstants.AppLabelName] = conf.GetConfig().ResourceReservationAppLabelValue
	case "frac":
		if k.ByMem == 1 {
			ann[pod_info.GpuMemoryAnnotationName] = strconv.FormatInt(k.Mem, 10)
		} else {
			// portion = mem / gpumem, written with 2 decimals as users do
			ann[common_info.GPUFraction] = strconv.FormatFloat(float64(k.Mem)/float64(w.sc.GpuMem), 'f', 2, 64)
		}
		if k.Dev > 1 {
			ann[commonconstants.GpuFractionsNumDevices] = strconv.FormatInt(k.Dev, 10)
		}
	}
	name := "p" + strconv.Itoa(p)
	pod := &v1.Pod{
		ObjectMeta: metav1.ObjectMeta{UID: types.UID("uid-" + name), Name: name, Namespace: "ns", Labels: labels, Annotations: ann},
		Spec:       v1.PodSpec{Containers: []v1.Container{{Resources: v1.ResourceRequirements{Requests: req}}}},
		Status:     v1.PodStatus{Phase: v1.PodPending},
	}
	return pod_info.NewTaskInfo(pod, nil, w.vm)
}

func milli(f float64) int64 { return int64(math.Round(f * 1000)) }

func (w *world) resProj(r *resource_info.Resource) map[string]any {
	return map[string]any{"cpu": int64(math.Round(r.Cpu())), "gpu": milli(r.GPUs()),
		"pods": r.ScalarResources()[resource_info.PodsResourceName]}
}

func (w *world) vecProj(v resource_info.ResourceVector) map[string]any {
	return map[string]any{"cpu": int64(math.Round(v.Get(w.vm.GetIndex(string(v1.ResourceCPU))))),
		"gpu":  milli(v.Get(w.vm.GetIndex(commonconstants.GpuResource))),
		"pods": int64(math.Round(v.Get(w.vm.GetIndex(string(v1.ResourcePods)))))}
}

func b2i(b bool) int {
	if b {
		return 1
	}
	return 0
}

func cp(s []string) []string { return append([]string{}, s...) }

func (w *world) noteGroups(g []string) {
	for _, x := range g {
		w.groups[x] = true
	}
}

// call executes one NodeInfo API call for pod p exactly as framework.Statement does it: the
// session's task object is mutated first (status, groups), then the node is told.
func (w *world) call(o op, callName string) {
	t := w.tasks[o.P]
	key := pod_info.PodKey(t.Pod)
	ost, ogrp := "None", []string{}
	if c, ok := w.ni.PodInfos[key]; ok {
		ost, ogrp = c.Status.String(), cp(c.GPUGroups)
	}
	var err error
	switch callName {
	case "Add":
		t.Status, t.GPUGroups, t.NodeName = statusByName[o.St], cp(o.Grp), "n1"
		err = w.ni.AddTask(t)
	case "Update":
		t.Status, t.GPUGroups = statusByName[o.St], cp(o.Grp)
		err = w.ni.UpdateTask(t)
	case "Consolidate":
		t.Status, t.GPUGroups = statusByName[o.St], cp(o.Grp)
		err = w.ni.ConsolidateSharedPodInfoToDifferentGPU(t)
	case "Remove":
		err = w.ni.RemoveTask(t)
		if w.restore {
			w.restore = false
			t.Status, t.GPUGroups = statusByName[o.St], cp(o.Grp)
			w.ni.RestoreSharedPodInfoOnPreviousGPU(t)
		} else {
			t.Status, t.NodeName = pod_status.Pending, ""
		}
	default:
		panic("unknown call " + callName)
	}
	w.noteGroups(o.Grp)
	w.noteGroups(ogrp)
	es := ""
	if err != nil {
		es = err.Error()
	}
	ev := map[string]any{"ev": "Step", "op": o.Op, "call": callName, "p": o.P, "st": o.St, "grp": cp(o.Grp),
		"ost": ost, "ogrp": ogrp, "err": es}
	w.project(ev)
	ev["mm"] = 0
	ev["dec"] = w.dec
	w.dec = 1
	w.events = append(w.events, ev)
}

// apply executes a semantic operation (the vocabulary of NodeAcct.tla) and keeps the book of
// intended entries. Returns false for operations without a node call.
func (w *world) apply(o op) {
	switch o.Op {
	case "SnapAdd", "Allocate", "Pipeline", "PipelineOnly", "ConvPipeline":
		// Pipeline = the allocate action nominates (real allocation not possible), PipelineOnly = a solver
		// simulation, ConvPipeline = ConvertAllAllocatedToPipelined (no fit decision involved)
		w.dec = w.decision(o)
		w.ent[o.P] = &entry{o.St, cp(o.Grp), 0}
		w.call(o, "Add")
	case "Evict":
		e := w.ent[o.P]
		e.Nom = b2i(e.St == "Pipelined")
		e.St = "Releasing"
		o.St, o.Grp = "Releasing", cp(e.Grp)
		w.call(o, "Update")
	case "Unevict":
		// Statement.unevict: UpdateTask if the pod is on the node, AddTask otherwise
		callName := "Add"
		if _, ok := w.ni.PodInfos[pod_info.PodKey(w.tasks[o.P].Pod)]; ok {
			callName = "Update"
		}
		if _, ok := w.ent[o.P]; !ok {
			delete(w.ghost, o.P)
		}
		w.ent[o.P] = &entry{o.St, cp(o.Grp), 0}
		w.call(o, callName)
	case "Unallocate", "Unpipeline":
		delete(w.ent, o.P)
		o.St, o.Grp = "None", []string{}
		w.call(o, "Remove")
	case "UnpipelineMoved":
		// Statement.unpipeline of a pipeline that had moved the pod to another GPU group of the node:
		// RemoveTask(nominated copy) + RestoreSharedPodInfoOnPreviousGPU(task restored to Releasing on its
		// previous groups) - the entry comes back, its resources were never removed
		g := w.ghost[o.P]
		delete(w.ghost, o.P)
		w.ent[o.P] = g
		o.St, o.Grp = g.St, cp(g.Grp)
		w.restore = true
		w.call(o, "Remove")
	case "Consolidate":
		w.dec = w.decision(o)
		w.ghost[o.P] = w.ent[o.P]
		w.ent[o.P] = &entry{"Pipelined", cp(o.Grp), 0}
		o.St = "Pipelined"
		w.call(o, "Consolidate")
	case "Place":
		w.placeDirected(o)
	case "OpenSession", "ConvertStart", "Commit", "Init":
	default:
		panic("unknown op " + o.Op)
	}
}

// placeDirected (directed scenarios): the REAL code decides how a pending pod is placed on the node, as
// actions/common.allocateTaskToNode does. o.St = "A" (allocate action) | "B" (solver: pipeline only);
// o.Grp = the order in which the fitting GPUs are offered ("*" = a whole GPU, else a group name; the
// order is up to the GpuOrderFn plugins). New groups are named f1, f2, ... The decision is then
// executed as an Allocate / Pipeline / PipelineOnly operation.
func (w *world) placeDirected(o op) {
	t, ni := w.tasks[o.P], w.ni
	pipelineOnly := o.St == "B"
	if _, on := ni.PodInfos[pod_info.PodKey(t.Pod)]; on || !ni.IsTaskAllocatableOnReleasingOrIdle(t) {
		return
	}
	nominate := "Pipeline"
	if pipelineOnly {
		nominate = "PipelineOnly"
	}
	if !(t.IsFractionRequest() || t.IsMemoryRequest()) {
		if !pipelineOnly && ni.IsTaskAllocatable(t) {
			w.apply(op{"Allocate", o.P, "Allocated", []string{}})
		} else {
			w.apply(op{nominate, o.P, "Pipelined", []string{}})
		}
		return
	}
	slots := 0
	if ni.Idle.GPUs() > 0 || ni.Releasing.GPUs() > 0 {
		slots = int(ni.Idle.GPUs()) + int(ni.Releasing.GPUs())
	}
	var list []string
	for _, g := range o.Grp {
		if g == "*" {
			if slots > 0 {
				list = append(list, pod_info.WholeGpuIndicator)
				slots--
			}
		} else if ni.IsTaskFitOnGpuGroup(t.ResReq, g) {
			list = append(list, g)
		}
	}
	sel := gpu_sharing.GetNodePreferableGpuForSharing(list, ni, t, pipelineOnly)
	if sel == nil {
		return
	}
	var grp []string
	for _, g := range sel.Groups {
		if _, exists := ni.UsedSharedGPUsMemory[g]; !exists {
			w.nfresh++
			g = "f" + strconv.Itoa(w.nfresh)
		}
		grp = append(grp, g)
	}
	if pipelineOnly || sel.IsReleasing {
		w.apply(op{nominate, o.P, "Pipelined", grp})
	} else {
		w.apply(op{"Allocate", o.P, "Allocated", grp})
	}
}

func (w *world) project(ev map[string]any) {
	ni := w.ni
	ev["idle"], ev["used"], ev["rel"] = w.resProj(ni.Idle), w.resProj(ni.Used), w.resProj(ni.Releasing)
	ev["idlev"], ev["usedv"], ev["relv"] = w.vecProj(ni.IdleVector), w.vecProj(ni.UsedVector), w.vecProj(ni.ReleasingVector)
	gm := map[string]map[string]int64{}
	get := func(g string) map[string]int64 {
		if gm[g] == nil {
			gm[g] = map[string]int64{}
			w.groups[g] = true
		}
		return gm[g]
	}
	for g, x := range ni.UsedSharedGPUsMemory {
		get(g)["u"] = x
	}
	for g, x := range ni.AllocatedSharedGPUsMemory {
		get(g)["a"] = x
		get(g)["k"] = 1
	}
	for g, x := range ni.ReleasingSharedGPUsMemory {
		get(g)["r"] = x
	}
	for g, x := range ni.ReleasingSharedGPUs {
		get(g)["m"] = int64(b2i(x))
	}
	ev["gm"] = gm
	present := []map[string]any{}
	for p, t := range w.tasks {
		if c, ok := ni.PodInfos[pod_info.PodKey(t.Pod)]; ok {
			present = append(present, map[string]any{"p": p, "st": c.Status.String(), "grp": cp(c.GPUGroups)})
		}
	}
	sort.Slice(present, func(i, j int) bool { return present[i]["p"].(int) < present[j]["p"].(int) })
	ev["present"] = present
	ev["npresent"] = len(ni.PodInfos)
	pods := []map[string]any{}
	for p, e := range w.ent {
		pods = append(pods, map[string]any{"p": p, "st": e.St, "grp": cp(e.Grp), "gh": 0, "nom": e.Nom})
	}
	for p, e := range w.ghost {
		pods = append(pods, map[string]any{"p": p, "st": e.St, "grp": cp(e.Grp), "gh": 1, "nom": e.Nom})
	}
	sort.Slice(pods, func(i, j int) bool {
		if pods[i]["p"].(int) != pods[j]["p"].(int) {
			return pods[i]["p"].(int) < pods[j]["p"].(int)
		}
		return pods[i]["gh"].(int) < pods[j]["gh"].(int)
	})
	ev["pods"] = pods
}

// flush writes the scenario: the Scenario line (with the list of all GPU groups that occur, so that
// the per-group maps are logged as arrays aligned with it) and the steps.
func (w *world) flush(out *tracefmt.Writer) {
	groups := []string{}
	for g := range w.groups {
		groups = append(groups, g)
	}
	sort.Strings(groups)
	sc := w.sc
	ops := []map[string]any{}
	for _, o := range sc.Ops {
		ops = append(ops, map[string]any{"op": o.Op, "p": o.P, "st": o.St, "grp": cp(o.Grp)})
	}
	out.Emit(map[string]any{"ev": "Scenario", "id": sc.ID, "class": sc.Class, "n": sc.N, "gpumem": sc.GpuMem, "cpu": sc.Cpu,
		"maxpods": sc.MaxPods, "kinds": sc.Kinds, "groups": groups, "ops": ops, "silent": sc.Silent})
	for _, ev := range w.events {
		gm := ev["gm"].(map[string]map[string]int64)
		um, am, rm, mk, ak := []int64{}, []int64{}, []int64{}, []int64{}, []int64{}
		for _, g := range groups {
			r := gm[g]
			if r == nil {
				r = map[string]int64{}
			}
			um, am, rm, mk, ak = append(um, r["u"]), append(am, r["a"]), append(rm, r["r"]), append(mk, r["m"]), append(ak, r["k"])
		}
		delete(ev, "gm")
		ev["um"], ev["am"], ev["rm"], ev["mk"], ev["ak"] = um, am, rm, mk, ak
		out.Emit(ev)
	}
}

func runScenario(sc *scenario, out *tracefmt.Writer) (steps, mm int) {
	w := newWorld(sc)
	for i, o := range sc.Ops {
		w.apply(o)
		if i+1 == sc.Silent && len(w.events) > 0 {
			// keep only the state reached, as a Restore line
			last := w.events[len(w.events)-1]
			errs := ""
			for _, ev := range w.events {
				if ev["err"].(string) != "" {
					errs = ev["err"].(string)
				}
			}
			r := map[string]any{"ev": "Restore", "err": errs, "mm": 0, "dec": 1}
			for _, k := range []string{"idle", "used", "rel", "idlev", "usedv", "relv", "gm", "present", "npresent", "pods"} {
				r[k] = last[k]
			}
			w.events = []map[string]any{r}
		}
	}
	for _, ev := range w.events {
		mm += ev["mm"].(int)
	}
	w.flush(out)
	return len(w.events), mm
}

// ---------------------------------------------------------------------------------------------
// edges mode: rebuild paths from Init over the TLC-exported labelled transitions
// ---------------------------------------------------------------------------------------------

type edge struct {
	A    op  `json:"a"`
	S    int `json:"s"` // state identities (assigned by the driver from the TLC output)
	T    int `json:"t"`
	s, t int
}

type modelConsts struct {
	N, GpuMem, Cpu, MaxPods int64
	Kinds                   []kind
}

func coverEdges(path string, mc modelConsts, maxLen int, out *tracefmt.Writer) {
	f, err := os.Open(path)
	check(err)
	defer f.Close()
	ids := map[int]int{}
	id := func(k int) int {
		if v, ok := ids[k]; ok {
			return v
		}
		ids[k] = len(ids)
		return len(ids) - 1
	}
	var edges []*edge
	r := bufio.NewReaderSize(f, 1<<20)
	for {
		line, err := r.ReadBytes('\n')
		if len(strings.TrimSpace(string(line))) > 0 {
			e := &edge{}
			check(json.Unmarshal(line, e))
			e.s, e.t = id(e.S), id(e.T)
			edges = append(edges, e)
		}
		if err != nil {
			break
		}
	}
	n := len(ids)
	outE := make([][]int, n)
	hasIn := make([]bool, n)
	for i, e := range edges {
		outE[e.s] = append(outE[e.s], i)
		if e.s != e.t {
			hasIn[e.t] = true
		}
	}
	init := -1
	for i := 0; i < n; i++ {
		if !hasIn[i] {
			if init >= 0 {
				fail("more than one state without predecessor in the edge file")
			}
			init = i
		}
	}
	if init < 0 {
		fail("no initial state in the edge file")
	}
	// BFS: parent edge of every state
	parent := make([]int, n)
	for i := range parent {
		parent[i] = -2
	}
	parent[init] = -1
	order := []int{init}
	for q := 0; q < len(order); q++ {
		for _, ei := range outE[order[q]] {
			if t := edges[ei].t; parent[t] == -2 {
				parent[t] = ei
				order = append(order, t)
			}
		}
	}
	covered := make([]bool, len(edges))
	nScen, nSteps, nMM := 0, 0, 0
	for _, s := range order {
		for _, first := range outE[s] {
			if covered[first] {
				continue
			}
			// shortest path to s
			var pre []int
			for x := s; parent[x] >= 0; x = edges[parent[x]].s {
				pre = append(pre, parent[x])
			}
			for i, j := 0, len(pre)-1; i < j; i, j = i+1, j-1 {
				pre[i], pre[j] = pre[j], pre[i]
			}
			pathE := append(pre, first)
			covered[first] = true
			// greedy extension over uncovered edges
			cur := edges[first].t
			for len(pathE) < maxLen {
				next := -1
				for _, ei := range outE[cur] {
					if !covered[ei] {
						next = ei
						break
					}
				}
				if next < 0 {
					break
				}
				covered[next] = true
				pathE = append(pathE, next)
				cur = edges[next].t
			}
			sc := &scenario{ID: fmt.Sprintf("e%d", nScen), Class: "model-path", N: mc.N, GpuMem: mc.GpuMem, Cpu: mc.Cpu,
				MaxPods: mc.MaxPods, Kinds: mc.Kinds, Silent: len(pre)}
			for _, ei := range pathE {
				sc.Ops = append(sc.Ops, edges[ei].A)
			}
			st, mm := runScenario(sc, out)
			nScen++
			nSteps += st
			nMM += mm
		}
	}
	unc := 0
	for _, c := range covered {
		if !c {
			unc++
		}
	}
	fmt.Printf("{\"states\":%d,\"edges\":%d,\"uncovered\":%d,\"scenarios\":%d,\"steps\":%d,\"model_mismatch_steps\":%d}\n",
		n, len(edges), unc, nScen, nSteps, nMM)
}

// ---------------------------------------------------------------------------------------------
// random mode: long random sessions of operations the scheduler can issue
// ---------------------------------------------------------------------------------------------

type undoRec struct {
	k    string // alloc | pipe | cons | evict
	p    int
	pst  string
	pgrp []string
}

type walker struct {
	w     *world
	rng   *rand.Rand
	log   []undoRec
	fresh int
	ops   []op
}

func (x *walker) do(o op) {
	x.ops = append(x.ops, o)
	x.w.apply(o)
}

func (x *walker) onNode(p int) bool {
	_, ok := x.w.ni.PodInfos[pod_info.PodKey(x.w.tasks[p].Pod)]
	return ok
}

// fittingGPUs = framework.filterGpusByEnoughResources in a random order (the order is decided by
// GpuOrderFn plugins; every order is possible)
func (x *walker) fittingGPUs(t *pod_info.PodInfo) []string {
	ni := x.w.ni
	var l []string
	for g := range ni.UsedSharedGPUsMemory {
		if ni.IsTaskFitOnGpuGroup(t.ResReq, g) {
			l = append(l, g)
		}
	}
	sort.Strings(l)
	if ni.Idle.GPUs() > 0 || ni.Releasing.GPUs() > 0 {
		for i := 0; i < int(ni.Idle.GPUs())+int(ni.Releasing.GPUs()); i++ {
			l = append(l, pod_info.WholeGpuIndicator)
		}
	}
	x.rng.Shuffle(len(l), func(i, j int) { l[i], l[j] = l[j], l[i] })
	return l
}

// place = actions/common.allocateTask -> allocateTaskToNode on the single node.
func (x *walker) place(p int, pipelineOnly bool) bool {
	w := x.w
	solver := pipelineOnly
	t := w.tasks[p]
	ni := w.ni
	if !ni.IsTaskAllocatableOnReleasingOrIdle(t) { // FittingNode
		return false
	}
	found := x.onNode(p)
	var grp []string
	if t.IsFractionRequest() || t.IsMemoryRequest() {
		sel := gpu_sharing.GetNodePreferableGpuForSharing(x.fittingGPUs(t), ni, t, pipelineOnly)
		if sel == nil {
			return false
		}
		for _, g := range sel.Groups {
			if _, exists := ni.UsedSharedGPUsMemory[g]; !exists { // a new UUID: give it a short name
				x.fresh++
				g = "u" + strconv.Itoa(x.fresh)
			}
			grp = append(grp, g)
		}
		pipelineOnly = pipelineOnly || sel.IsReleasing
		if !pipelineOnly {
			x.do(op{"Allocate", p, "Allocated", grp})
			x.log = append(x.log, undoRec{"alloc", p, "None", nil})
			return true
		}
	} else {
		grp = []string{}
		if !pipelineOnly && ni.IsTaskAllocatable(t) {
			x.do(op{"Allocate", p, "Allocated", grp})
			x.log = append(x.log, undoRec{"alloc", p, "None", nil})
			return true
		}
	}
	// Statement.Pipeline(task, node, updateTaskIfExistsOnNode=false)
	if found {
		cur := w.ent[p]
		shared := t.IsSharedGPUAllocation()
		if len(grp) > 0 && shared && !eq(grp, cur.Grp) {
			x.do(op{"Consolidate", p, "Pipelined", grp})
			x.log = append(x.log, undoRec{"cons", p, "Releasing", cp(cur.Grp)})
			return true
		}
		// Unevict: undo the earliest evict of p
		for i, u := range x.log {
			if u.k == "evict" && u.p == p {
				x.do(op{"Unevict", p, u.pst, cp(u.pgrp)})
				x.log = append(x.log[:i:i], x.log[i+1:]...)
				return true
			}
		}
		return false
	}
	name := "Pipeline"
	if solver {
		name = "PipelineOnly"
	}
	x.do(op{name, p, "Pipelined", grp})
	x.log = append(x.log, undoRec{"pipe", p, "None", nil})
	return true
}

func eq(a, b []string) bool {
	if len(a) != len(b) {
		return false
	}
	for i := range a {
		if a[i] != b[i] {
			return false
		}
	}
	return true
}

func (x *walker) undoLast() {
	u := x.log[len(x.log)-1]
	x.log = x.log[:len(x.log)-1]
	switch u.k {
	case "alloc":
		x.do(op{"Unallocate", u.p, "None", nil})
	case "pipe":
		x.do(op{"Unpipeline", u.p, "None", nil})
	case "cons":
		x.do(op{"UnpipelineMoved", u.p, "Releasing", cp(u.pgrp)})
	case "evict":
		x.do(op{"Unevict", u.p, u.pst, cp(u.pgrp)})
	}
}

func (x *walker) inLog(p int) bool {
	for _, u := range x.log {
		if u.p == p {
			return true
		}
	}
	return false
}

func (x *walker) pendingPods() []int {
	var l []int
	for p := range x.w.tasks {
		if _, ok := x.w.ent[p]; !ok && x.w.ghost[p] == nil && !x.inLog(p) && x.w.sc.Kinds[p-1].K != "resv" {
			l = append(l, p)
		}
	}
	sort.Ints(l)
	x.rng.Shuffle(len(l), func(i, j int) { l[i], l[j] = l[j], l[i] })
	return l
}

func (x *walker) statementA(budget int) {
	start := len(x.w.events)
	spent := func() int { return len(x.w.events) - start }
	pend := x.pendingPods()
	for _, p := range pend {
		if spent() >= budget {
			break
		}
		if x.rng.Intn(4) == 0 {
			continue
		}
		if !x.place(p, false) {
			// a task of the gang does not fit: roll back to a checkpoint
			for k := x.rng.Intn(len(x.log) + 1); k > 0; k-- {
				x.undoLast()
			}
			if x.rng.Intn(2) == 0 {
				break
			}
		}
	}
	if len(x.log) == 0 {
		return
	}
	switch r := x.rng.Intn(10); {
	case r < 2: // Discard
		for len(x.log) > 0 {
			x.undoLast()
		}
	default:
		hasPipe, hasAlloc := false, false
		for _, u := range x.log {
			hasPipe = hasPipe || u.k == "pipe"
			hasAlloc = hasAlloc || u.k == "alloc"
		}
		if hasPipe && hasAlloc && x.rng.Intn(4) != 0 {
			// ConvertAllAllocatedToPipelined: in log order unallocate + Pipeline(update)
			var rest []undoRec
			var conv []int
			for _, u := range x.log {
				if u.k == "alloc" {
					conv = append(conv, u.p)
				} else {
					rest = append(rest, u)
				}
			}
			for _, p := range conv {
				grp := cp(x.w.ent[p].Grp)
				x.do(op{"Unallocate", p, "None", nil})
				x.do(op{"ConvPipeline", p, "Pipelined", grp})
				rest = append(rest, undoRec{"pipe", p, "None", nil})
			}
			x.log = rest
		} else if hasAlloc && r == 2 {
			// a bind fails at commit: unallocate that task, the rest of the log is abandoned
			var al []int
			for _, u := range x.log {
				if u.k == "alloc" {
					al = append(al, u.p)
				}
			}
			x.do(op{"Unallocate", al[x.rng.Intn(len(al))], "None", nil})
		}
		x.log = nil // Commit
	}
}

func (x *walker) statementB(budget int) {
	start := len(x.w.events)
	spent := func() int { return len(x.w.events) - start }
	// victims
	var cand []int
	for p, e := range x.w.ent {
		// victims hold resources: pods that are only nominated (Pipelined) are not evicted
		if e.St != "Releasing" && e.St != "Pipelined" && x.w.sc.Kinds[p-1].K != "resv" {
			cand = append(cand, p)
		}
	}
	sort.Ints(cand)
	x.rng.Shuffle(len(cand), func(i, j int) { cand[i], cand[j] = cand[j], cand[i] })
	nv := 0
	if len(cand) > 0 {
		nv = 1 + x.rng.Intn(len(cand))
		if nv > 3 {
			nv = 3
		}
	}
	var victims []int
	for _, p := range cand[:nv] {
		e := x.w.ent[p]
		x.log = append(x.log, undoRec{"evict", p, e.St, cp(e.Grp)})
		x.do(op{"Evict", p, "Releasing", cp(e.Grp)})
		victims = append(victims, p)
	}
	// pipeline-only placement of pending pods and of the victims (TryToVirtuallyAllocatePreemptorAndGetVictims)
	todo := append(x.pendingPods(), victims...)
	x.rng.Shuffle(len(todo), func(i, j int) { todo[i], todo[j] = todo[j], todo[i] })
	for _, p := range todo {
		if spent() >= budget {
			break
		}
		if x.rng.Intn(3) == 0 {
			continue
		}
		if x.w.ghost[p] != nil {
			continue
		}
		if e, ok := x.w.ent[p]; ok && e.St != "Releasing" {
			continue
		}
		if !x.place(p, true) && x.rng.Intn(3) == 0 {
			for k := x.rng.Intn(len(x.log) + 1); k > 0; k-- {
				x.undoLast()
			}
		}
	}
	if x.rng.Intn(10) < 4 {
		for len(x.log) > 0 {
			x.undoLast()
		}
	}
	x.log = nil // Commit (or nothing left)
}

func randomScenario(rng *rand.Rand, idx int, maxSteps int) *world {
	gpumem := []int64{100, 100, 200, 16000}[rng.Intn(4)]
	sc := &scenario{ID: fmt.Sprintf("r%d", idx), Class: "random", N: int64(1 + rng.Intn(4)), GpuMem: gpumem,
		Cpu: int64(3+rng.Intn(6)) * 1000, MaxPods: int64(3 + rng.Intn(6))}
	np := 5 + rng.Intn(6)
	for i := 0; i < np; i++ {
		k := kind{Cpu: int64(1+rng.Intn(3)) * 500}
		switch r := rng.Intn(10); {
		case r < 5:
			k.K, k.Dev = "frac", 1
			k.Mem = gpumem * []int64{25, 30, 50, 50, 70, 100}[rng.Intn(6)] / 100
			if k.Mem == gpumem {
				k.Mem = gpumem / 2
			}
			k.ByMem = int64(rng.Intn(2))
			if rng.Intn(6) == 0 {
				k.Dev = 2
			}
		case r < 7:
			k.K, k.Gpus = "whole", int64(1+rng.Intn(2))
		case r < 9:
			k.K = "cpu"
		default:
			k.K, k.Gpus = "resv", 1
		}
		sc.Kinds = append(sc.Kinds, k)
	}
	x := &walker{w: newWorld(sc), rng: rng}
	w := x.w
	// feasible snapshot (the harness' own arithmetic, not the node's)
	cpu, slots, whole := int64(0), int64(0), int64(0)
	gmem := map[string]int64{}
	var gnames []string
	for p := 1; p <= np; p++ {
		if rng.Intn(2) == 0 {
			continue
		}
		k := sc.Kinds[p-1]
		if cpu+k.Cpu > sc.Cpu || slots+1 > sc.MaxPods {
			continue
		}
		st := []string{"Running", "Running", "Releasing", "Bound", "Binding"}[rng.Intn(5)]
		grp := []string{}
		switch k.K {
		case "whole":
			if whole+k.Gpus+int64(len(gnames)) > sc.N {
				continue
			}
			whole += k.Gpus
		case "resv":
			if st == "Bound" || st == "Binding" {
				st = "Running"
			}
		case "frac":
			var cands []string
			for _, g := range gnames {
				if gmem[g]+k.Mem <= sc.GpuMem {
					cands = append(cands, g)
				}
			}
			rng.Shuffle(len(cands), func(i, j int) { cands[i], cands[j] = cands[j], cands[i] })
			for int64(len(grp)) < k.Dev {
				if len(cands) > 0 && rng.Intn(3) != 0 {
					grp = append(grp, cands[0])
					cands = cands[1:]
				} else if whole+int64(len(gnames))+1 <= sc.N {
					x.fresh++
					g := "u" + strconv.Itoa(x.fresh)
					gnames = append(gnames, g)
					grp = append(grp, g)
				} else if len(cands) > 0 {
					grp = append(grp, cands[0])
					cands = cands[1:]
				} else {
					break
				}
			}
			if int64(len(grp)) < k.Dev {
				// undo the group names opened for this pod
				for _, g := range grp {
					if gmem[g] == 0 {
						for i, h := range gnames {
							if h == g {
								gnames = append(gnames[:i], gnames[i+1:]...)
								break
							}
						}
					}
				}
				continue
			}
			for _, g := range grp {
				gmem[g] += k.Mem
			}
		}
		cpu += k.Cpu
		slots++
		x.do(op{"SnapAdd", p, st, grp})
	}
	for len(w.events) < maxSteps {
		before := len(w.events)
		if rng.Intn(2) == 0 {
			x.statementA(8)
		} else {
			x.statementB(8)
		}
		if len(w.events) == before && rng.Intn(4) == 0 {
			break
		}
	}
	sc.Ops = x.ops
	return w
}

// ---------------------------------------------------------------------------------------------

func check(err error) {
	if err != nil {
		fail(err.Error())
	}
}

func fail(msg string) {
	fmt.Fprintln(os.Stderr, "nodeacct:", msg)
	os.Exit(3)
}

func main() {
	edgesF := flag.String("edges", "", "labelled transitions exported by TLC (ndjson)")
	constsF := flag.String("consts", "", "json: {\"N\",\"GpuMem\",\"Cpu\",\"MaxPods\",\"Kinds\"} of the model (edges mode)")
	in := flag.String("in", "", "scenario ndjson")
	outF := flag.String("out", "", "trace ndjson")
	random := flag.Int("random", 0, "number of random sessions")
	steps := flag.Int("steps", 40, "node calls per random session")
	maxLen := flag.Int("maxlen", 24, "max path length when covering edges")
	seed := flag.Int64("seed", 1, "seed")
	flag.Parse()
	_ = log.InitLoggers(0)
	out, err := tracefmt.Create(*outF)
	check(err)
	defer out.Close()
	switch {
	case *edgesF != "":
		var mc modelConsts
		check(json.Unmarshal([]byte(*constsF), &mc))
		coverEdges(*edgesF, mc, *maxLen, out)
	case *in != "":
		f, err := os.Open(*in)
		check(err)
		r := bufio.NewReaderSize(f, 1<<20)
		n := 0
		for {
			line, err := r.ReadBytes('\n')
			if len(strings.TrimSpace(string(line))) > 0 {
				sc := &scenario{}
				check(json.Unmarshal(line, sc))
				runScenario(sc, out)
				n++
			}
			if err != nil {
				break
			}
		}
		fmt.Printf("{\"scenarios\":%d}\n", n)
	case *random > 0:
		rng := rand.New(rand.NewSource(*seed))
		total := 0
		for i := 0; i < *random; i++ {
			w := randomScenario(rng, i, *steps)
			total += len(w.events)
			w.flush(out)
		}
		fmt.Printf("{\"scenarios\":%d,\"steps\":%d}\n", *random, total)
	default:
		fail("one of -edges, -in, -random is required")
	}
}
