package main

// claim.go - the pod shape "claim" of the hand-off (C12: "... including GPU groups and CLAIMED DEVICES ...").
//
// A scenario in which some pod has cl = 1 is a DRA scenario: the node publishes its `gpus` GPUs as the devices
// "0".."gpus-1" of ONE ResourceSlice (driver draDriver, pool = node name) instead of the extended resource
// nvidia.com/gpu, and every claim pod asks for one device of class draClass through its own ResourceClaim object
// (resource.k8s.io/v1). The API server's discovery reports a 1.34 server that serves resource.k8s.io/v1, so that
// cache.New enables DynamicResourceAllocation as it does in production.
//
// REAL on the scheduler side: the snapshot (PodInfo.ResourceClaimInfo from the claim / from the BindRequest), the
// scheduler's DRA manager (assume cache over the claim informer, in-flight allocations, resource slice tracker),
// the dynamicresources plugin (restoreAllClaims, assumePendingClaims, allocate handler -> structured allocator),
// the k8s DynamicResources PreFilter / Filter predicate, cache.Bind -> BindRequest.spec.resourceClaimAllocations.
// REAL on the binder side: the k8s-plugins binder plugin with the DynamicResources plugin (its Bind writes
// status.allocation / status.reservedFor of the claim; its UnAllocate is a no-op: nothing is rolled back). It talks
// to the client-go clientset of the scheduler-side store directly - the claims live in that store only; pods,
// nodes and BindRequests are copied between the two stores as before.
// PLAYED by the harness: the API server (fake object tracker; the harness bumps metadata.resourceVersion of
// claims and slices on every write, because the assume cache only accepts informer updates with a newer
// version), the resource claim controller of kube-controller-manager on PodDeleted (the reservation of the deleted
// pod is removed and the unreserved claim is deallocated), the node's DRA driver on NodeDeleted / NodeAdded (the
// ResourceSlice goes and comes with the node).
// FAULT: out = "failclaim" - the API server refuses the status update of the ResourceClaim (503): the attempt fails
// in PreBind before anything is written, i.e. a failed attempt after which the claim is still unallocated in the API.
//
// Devices are compared as slots: device "i" of the node's pool = slot i+1. For a claim pod `dev` (store
// projection) = the devices in BindRequest.spec.resourceClaimAllocations, `lab` = the devices in the claim's
// status.allocation in the API; the snapshot projection carries `used` (the devices the session's DRA manager
// counts as allocated once the session is open, i.e. what the DRA allocator and the DRA filter work from) and
// `pcl` (the devices in the pod's own PodInfo.ResourceClaimInfo).

import (
	"context"
	"fmt"
	"reflect"
	"sort"
	"strconv"
	"sync"
	"time"
	"unsafe"

	corev1 "k8s.io/api/core/v1"
	resourceapi "k8s.io/api/resource/v1"
	apierrors "k8s.io/apimachinery/pkg/api/errors"
	metav1 "k8s.io/apimachinery/pkg/apis/meta/v1"
	k8sruntime "k8s.io/apimachinery/pkg/runtime"
	"k8s.io/apimachinery/pkg/types"
	"k8s.io/apimachinery/pkg/version"
	fakediscovery "k8s.io/client-go/discovery/fake"
	"k8s.io/client-go/informers"
	k8stesting "k8s.io/client-go/testing"

	binderplugins "github.com/NVIDIA/KAI-scheduler/pkg/binder/plugins"
	k8splugins "github.com/NVIDIA/KAI-scheduler/pkg/binder/plugins/k8s-plugins"
	"github.com/NVIDIA/KAI-scheduler/pkg/scheduler/framework"
	schedk8splugins "github.com/NVIDIA/KAI-scheduler/pkg/scheduler/k8s_internal/plugins"
)

const (
	draDriver   = "gpu.nvidia.com"
	draClass    = "gpu.nvidia.com"
	draRequest  = "gpu"
	podClaimRef = "gpu-claim" // the pod-level name of the claim (pod.spec.resourceClaims[].name)
	barrierNS   = "verif-barrier"
)

func claimName(p string) string { return "claim-" + p }

func (sc *scenario) hasClaims() bool {
	for _, v := range sc.Cl {
		if v > 0 {
			return true
		}
	}
	return false
}

func (w *world) isClaim(p string) bool { return w.sc.Cl[p] > 0 }

func (w *world) sliceName() string { return nodeName + "-" + draDriver }

func (w *world) sliceObject() *resourceapi.ResourceSlice {
	node := nodeName
	s := &resourceapi.ResourceSlice{
		// like the node, a re-created slice gets a new UID
		ObjectMeta: metav1.ObjectMeta{Name: w.sliceName(), UID: types.UID(fmt.Sprintf("slice-uid-%d", w.flips)),
			CreationTimestamp: metav1.NewTime(time.Date(2024, 1, 1, 0, 0, 0, 0, time.UTC))},
		Spec: resourceapi.ResourceSliceSpec{Driver: draDriver, NodeName: &node,
			Pool: resourceapi.ResourcePool{Name: nodeName, Generation: 1, ResourceSliceCount: 1}},
	}
	for i := 0; i < w.gpus(); i++ {
		s.Spec.Devices = append(s.Spec.Devices, resourceapi.Device{Name: strconv.Itoa(i)})
	}
	return s
}

func (w *world) claimObject(p string, idx int) *resourceapi.ResourceClaim {
	return &resourceapi.ResourceClaim{
		ObjectMeta: metav1.ObjectMeta{Name: claimName(p), Namespace: ns, UID: types.UID("claim-uid-" + p),
			CreationTimestamp: metav1.NewTime(time.Date(2024, 1, 1, 0, 0, idx, 0, time.UTC)),
			// a claim that is not generated from a template is a shared GPU claim: it must carry the queue of its consumers
			Labels: map[string]string{"kai.scheduler/queue": queueName}},
		Spec: resourceapi.ResourceClaimSpec{Devices: resourceapi.DeviceClaim{Requests: []resourceapi.DeviceRequest{{
			Name:    draRequest,
			Exactly: &resourceapi.ExactDeviceRequest{DeviceClassName: draClass, AllocationMode: resourceapi.DeviceAllocationModeExactCount, Count: 1}}}}},
	}
}

// setupDRA: discovery data, reactors and the static DRA objects; called before the scheduler cache is created.
func (w *world) setupDRA(ctx context.Context) {
	fd, ok := w.kube.Discovery().(*fakediscovery.FakeDiscovery)
	if !ok {
		infra("fake clientset without fake discovery")
	}
	fd.FakedServerVersion = &version.Info{Major: "1", Minor: "34", GitVersion: "v1.34.2"}
	w.kube.Resources = append(w.kube.Resources, &metav1.APIResourceList{GroupVersion: "resource.k8s.io/v1",
		APIResources: []metav1.APIResource{
			{Name: "resourceclaims", Namespaced: true, Kind: "ResourceClaim"},
			{Name: "resourceslices", Kind: "ResourceSlice"},
			{Name: "deviceclasses", Kind: "DeviceClass"}}})

	// the API server: every write gets a new resourceVersion; the status update of a claim is refused while the
	// fault of the reconcile in flight says so
	stamp := func(a k8stesting.Action) (bool, k8sruntime.Object, error) {
		var obj k8sruntime.Object
		if oa, ok := a.(interface{ GetObject() k8sruntime.Object }); ok && (a.GetVerb() == "create" || a.GetVerb() == "update") {
			obj = oa.GetObject()
		}
		if _, isClaim := obj.(*resourceapi.ResourceClaim); isClaim && a.GetVerb() == "update" && a.GetSubresource() == "status" && a.GetNamespace() == ns && w.failClaimWrite {
			w.claimWriteFailed = true
			return true, nil, apierrors.NewServiceUnavailable("verif: the API server refuses the status update of the ResourceClaim")
		}
		if m, ok := obj.(metav1.Object); ok {
			w.rv++
			m.SetResourceVersion(strconv.Itoa(w.rv))
		}
		return false, nil, nil
	}
	w.kube.PrependReactor("*", "resourceclaims", stamp)
	w.kube.PrependReactor("*", "resourceslices", stamp)
	w.kube.PrependReactor("*", "deviceclasses", stamp)

	must := func(err error) {
		if err != nil {
			infra("create DRA object: %v", err)
		}
	}
	_, err := w.kube.ResourceV1().DeviceClasses().Create(ctx, &resourceapi.DeviceClass{ObjectMeta: metav1.ObjectMeta{Name: draClass, UID: types.UID("class-" + draClass)}}, metav1.CreateOptions{})
	must(err)
	_, err = w.kube.ResourceV1().ResourceSlices().Create(ctx, w.sliceObject(), metav1.CreateOptions{})
	must(err)
}

// claimPodSpec turns the pod into a claim pod: no GPU request of its own, one claim, used by its container.
func claimPodSpec(pod *corev1.Pod, p string) {
	name := claimName(p)
	pod.Spec.ResourceClaims = []corev1.PodResourceClaim{{Name: podClaimRef, ResourceClaimName: &name}}
	pod.Spec.Containers[0].Resources.Claims = []corev1.ResourceClaim{{Name: podClaimRef}}
}

// draPlugins: the scheduler cache's internal k8s plugins, whose framework handle owns the shared DRA manager
// (callers use .FrameworkHandle.SharedDRAManager(): the manager's type lives in k8s.io/kubernetes and is not named here)
func (w *world) draPlugins() *schedk8splugins.K8sPlugins {
	plugins := w.cache.InternalK8sPlugins()
	if plugins == nil || plugins.FrameworkHandle == nil {
		infra("no internal k8s plugins")
	}
	if !plugins.Features.EnableDynamicResourceAllocation {
		infra("the scheduler cache did not enable DynamicResourceAllocation from the discovery data")
	}
	if plugins.FrameworkHandle.SharedDRAManager() == nil {
		infra("no shared DRA manager")
	}
	return plugins
}

// waitDRAStart: the DRA manager has seen the static objects of the scenario (its stores are filled by informer
// event handlers, which may lag behind WaitForCacheSync).
func (w *world) waitDRAStart() {
	mgr := w.draPlugins().FrameworkHandle.SharedDRAManager()
	deadline := time.Now().Add(syncTimeout)
	for {
		_, errc := mgr.DeviceClasses().Get(draClass)
		slices, errs := mgr.ResourceSlices().ListWithDeviceTaintRules()
		if errc == nil && errs == nil && len(slices) == 1 {
			return
		}
		if time.Now().After(deadline) {
			infra("the DRA manager never saw the device class / resource slice of the scenario (%v, %v, %d slices)", errc, errs, len(slices))
		}
		time.Sleep(200 * time.Microsecond)
	}
}

// barrierDRA: as barrier(), for the two watch streams the DRA manager follows. The marker claim is allocated a
// marker device: once the manager counts that device as allocated, the assume cache AND the allocated-devices
// tracker behind it have processed every earlier claim event (handlers are FIFO). Markers are gone - and seen to be
// gone - before the cycle starts.
func (w *world) barrierDRA(name string) {
	ctx := context.Background()
	mgr := w.draPlugins().FrameworkHandle.SharedDRAManager()
	dl := w.cache.GetDataLister()
	node := name
	if _, err := w.kube.ResourceV1().ResourceSlices().Create(ctx, &resourceapi.ResourceSlice{ObjectMeta: metav1.ObjectMeta{Name: name},
		Spec: resourceapi.ResourceSliceSpec{Driver: "verif-barrier", NodeName: &node, Pool: resourceapi.ResourcePool{Name: name, Generation: 1, ResourceSliceCount: 1},
			Devices: []resourceapi.Device{{Name: "b"}}}}, metav1.CreateOptions{}); err != nil {
		infra("barrier slice: %v", err)
	}
	if _, err := w.kube.ResourceV1().ResourceClaims(barrierNS).Create(ctx, &resourceapi.ResourceClaim{ObjectMeta: metav1.ObjectMeta{Name: name, Namespace: barrierNS, UID: types.UID(name)},
		Status: resourceapi.ResourceClaimStatus{Allocation: &resourceapi.AllocationResult{Devices: resourceapi.DeviceAllocationResult{
			Results: []resourceapi.DeviceRequestAllocationResult{{Request: "b", Driver: "verif-barrier", Pool: name, Device: "b"}}}}}}, metav1.CreateOptions{}); err != nil {
		infra("barrier claim: %v", err)
	}
	seen := func() (s, s2, c, d bool) {
		slices, _ := mgr.ResourceSlices().ListWithDeviceTaintRules()
		for _, o := range slices {
			s = s || o.Name == name
		}
		byNode, _ := dl.ListResourceSlicesByNode()
		s2 = len(byNode[name]) > 0
		claims, _ := mgr.ResourceClaims().List()
		for _, o := range claims {
			c = c || (o.Namespace == barrierNS && o.Name == name)
		}
		devs, _ := mgr.ResourceClaims().ListAllAllocatedDevices()
		for id := range devs {
			d = d || id.Pool.String() == name
		}
		return
	}
	wait := func(want bool, what string) {
		deadline := time.Now().Add(syncTimeout)
		for i := 0; ; i++ {
			s, s2, c, d := seen()
			if s == want && s2 == want && c == want && d == want {
				return
			}
			if time.Now().After(deadline) {
				infra("the DRA manager did not process the barrier (%s: slice %v/%v claim %v device %v) within %v (scenario %s)", what, s, s2, c, d, syncTimeout, w.sc.ID)
			}
			if i < 200 {
				time.Sleep(20 * time.Microsecond)
			} else {
				time.Sleep(100 * time.Microsecond)
			}
		}
	}
	wait(true, "create")
	if err := w.kube.ResourceV1().ResourceSlices().Delete(ctx, name, metav1.DeleteOptions{}); err != nil {
		infra("barrier slice delete: %v", err)
	}
	if err := w.kube.ResourceV1().ResourceClaims(barrierNS).Delete(ctx, name, metav1.DeleteOptions{}); err != nil {
		infra("barrier claim delete: %v", err)
	}
	wait(false, "delete")
}

// devSlots: the devices of an allocation as slots (device "i" of the node's pool = slot i+1; anything else = 99)
func devSlots(a *resourceapi.AllocationResult) []int {
	out := []int{}
	if a == nil {
		return out
	}
	for _, r := range a.Devices.Results {
		i, err := strconv.Atoi(r.Device)
		if err != nil || r.Pool != nodeName || r.Driver != draDriver || i < 0 {
			out = append(out, 99)
		} else {
			out = append(out, i+1)
		}
	}
	sort.Ints(out)
	return out
}

func (w *world) getClaim(p string) *resourceapi.ResourceClaim {
	c, err := w.kube.ResourceV1().ResourceClaims(ns).Get(context.Background(), claimName(p), metav1.GetOptions{})
	if err != nil {
		return nil
	}
	return c
}

// releaseClaimOf plays the resource claim controller for a deleted pod: its reservation is removed, the claim -
// now without consumers - is deallocated.
func (w *world) releaseClaimOf(p string) {
	c := w.getClaim(p)
	if c == nil || (c.Status.Allocation == nil && len(c.Status.ReservedFor) == 0) {
		return
	}
	c = c.DeepCopy()
	c.Status.ReservedFor = nil
	c.Status.Allocation = nil
	if _, err := w.kube.ResourceV1().ResourceClaims(ns).UpdateStatus(context.Background(), c, metav1.UpdateOptions{}); err != nil {
		infra("deallocate claim of %s: %v", p, err)
	}
}

// usedDevices: the devices of the node's pool the session's DRA manager counts as allocated (slots)
func (w *world) usedDevices(ssn *framework.Session) []int {
	out := []int{}
	devs, err := ssn.InternalK8sPlugins().FrameworkHandle.SharedDRAManager().ResourceClaims().ListAllAllocatedDevices()
	if err != nil {
		infra("allocated devices: %v", err)
	}
	for id := range devs {
		i, err := strconv.Atoi(id.Device.String())
		if err != nil || id.Pool.String() != nodeName || id.Driver.String() != draDriver {
			out = append(out, 99)
		} else {
			out = append(out, i+1)
		}
	}
	sort.Ints(out)
	return out
}

// inflightDevices: the devices of the in-flight ("pending") allocation the scheduler's DRA manager remembers for the
// claim of pod p. This is memory of the scheduler process (claimTracker.inFlightAllocations, filled by
// SignalClaimPendingAllocation in assumePendingClaims); the tracker interface only tells WHETHER a claim has one
// (ClaimHasPendingAllocation), the devices are read from the unexported map.
func (w *world) inflightDevices(p string) []int {
	tracker := w.draPlugins().FrameworkHandle.SharedDRAManager().ResourceClaims()
	uid := types.UID("claim-uid-" + p)
	out := []int{}
	v := reflect.ValueOf(tracker)
	if v.Kind() != reflect.Ptr || v.Elem().Kind() != reflect.Struct || !v.Elem().FieldByName("inFlightAllocations").IsValid() {
		infra("the claim tracker of the DRA manager has no field inFlightAllocations (%T)", tracker)
	}
	f := v.Elem().FieldByName("inFlightAllocations")
	m, ok := reflect.NewAt(f.Type(), unsafe.Pointer(f.UnsafeAddr())).Elem().Interface().(*sync.Map)
	if !ok || m == nil {
		infra("claimTracker.inFlightAllocations is not a *sync.Map")
	}
	found := false
	m.Range(func(k, val any) bool {
		if k == any(uid) {
			found = true
			if c, ok := val.(*resourceapi.ResourceClaim); ok {
				out = devSlots(c.Status.Allocation)
			} else {
				out = []int{99}
			}
		}
		return true
	})
	if found != tracker.ClaimHasPendingAllocation(uid) {
		infra("in-flight allocation of %s: map and ClaimHasPendingAllocation disagree", p)
	}
	return out
}

// binderPluginsFor: claim scenarios run the real k8s-plugins binder plugin (volume binding + DynamicResources)
func (w *world) binderPluginsFor() *binderplugins.BinderPlugins {
	bp := binderplugins.New()
	if w.sc.hasClaims() {
		kp, err := k8splugins.New(w.kube, informers.NewSharedInformerFactory(w.kube, 0), 3600)
		if err != nil {
			infra("binder k8s-plugins: %v", err)
		}
		bp.RegisterPlugin(kp)
	}
	return bp
}
