// Command handoff replays scheduler/binder interleavings on the REAL scheduler cache and the REAL
// BindRequestReconciler (C12 - BindRequest hand-off).
//
// Scheduler side: client-go fake clientset + KAI fake clientset -> cache.New -> Run/WaitForCacheSync ->
// framework.OpenSession (real Snapshot incl. cleanStaleBindRequest) -> every configured action ->
// CloseSession, exactly as cmd/snapshot-tool does. The allocate action creates the BindRequest through the
// real cache.Bind. Binder side: the real BindRequestReconciler + real binding.Binder on a controller-runtime
// fake client. The two fake stores are synchronised at each hand-off point of the (serial) schedule:
// scheduler store -> binder store before a binder step, binder store -> scheduler store after it. The
// `binding` sub-resource is played by a client interceptor (the fake client has no such sub-resource): it
// fails when the schedule says so, otherwise sets pod.spec.nodeName. `BindDoneStatusLost` fails the
// BindRequest status patch instead.
//
// Input (-in): ndjson schedules {"id","lim","req":{"p1":100,..},"present":["p1",..],"steps":[{"n","p","out"}]}
// as exported by TLC from spec/Handoff.tla (a step that is not enabled in the real state is skipped and
// logged with skip=1); or -random N -seed S -len K -pods P: seeded random schedules over the enabled steps.
// Output (-out): ndjson trace: a Scenario line, then one line per step with the projection of the real
// stores (`st`), of the real snapshot (`snap`, cycles only) and of the reconcile result (`rec`).
// Integers and strings only; -1 = nil backoffLimit; quantities in centi-GPU / milli-CPU.
package main

import (
	"bufio"
	"context"
	"encoding/json"
	"errors"
	"flag"
	"fmt"
	"math"
	"math/rand"
	"net/http"
	"os"
	"reflect"
	"runtime"
	"sort"
	"sync"
	"time"

	"github.com/go-logr/logr"
	corev1 "k8s.io/api/core/v1"
	apierrors "k8s.io/apimachinery/pkg/api/errors"
	"k8s.io/apimachinery/pkg/api/resource"
	metav1 "k8s.io/apimachinery/pkg/apis/meta/v1"
	k8sruntime "k8s.io/apimachinery/pkg/runtime"
	"k8s.io/apimachinery/pkg/types"
	"k8s.io/apimachinery/pkg/watch"
	kubefake "k8s.io/client-go/kubernetes/fake"
	k8stesting "k8s.io/client-go/testing"
	"k8s.io/client-go/tools/record"
	ctrl "sigs.k8s.io/controller-runtime"
	"sigs.k8s.io/controller-runtime/pkg/client"
	ctrlfake "sigs.k8s.io/controller-runtime/pkg/client/fake"
	"sigs.k8s.io/controller-runtime/pkg/client/interceptor"
	ctrllog "sigs.k8s.io/controller-runtime/pkg/log"

	kaifake "github.com/NVIDIA/KAI-scheduler/pkg/apis/client/clientset/versioned/fake"
	kaischeme "github.com/NVIDIA/KAI-scheduler/pkg/apis/client/clientset/versioned/scheme"
	schedulingv1alpha2 "github.com/NVIDIA/KAI-scheduler/pkg/apis/scheduling/v1alpha2"
	schedulingv2 "github.com/NVIDIA/KAI-scheduler/pkg/apis/scheduling/v2"
	schedulingv2alpha2 "github.com/NVIDIA/KAI-scheduler/pkg/apis/scheduling/v2alpha2"
	"github.com/NVIDIA/KAI-scheduler/pkg/binder/binding"
	"github.com/NVIDIA/KAI-scheduler/pkg/binder/controllers"
	binderplugins "github.com/NVIDIA/KAI-scheduler/pkg/binder/plugins"
	commonconsts "github.com/NVIDIA/KAI-scheduler/pkg/common/constants"
	"github.com/NVIDIA/KAI-scheduler/pkg/scheduler/actions"
	schedcache "github.com/NVIDIA/KAI-scheduler/pkg/scheduler/cache"
	"github.com/NVIDIA/KAI-scheduler/pkg/scheduler/conf"
	"github.com/NVIDIA/KAI-scheduler/pkg/scheduler/conf_util"
	"github.com/NVIDIA/KAI-scheduler/pkg/scheduler/framework"
	schedlog "github.com/NVIDIA/KAI-scheduler/pkg/scheduler/log"
	"github.com/NVIDIA/KAI-scheduler/pkg/scheduler/plugins"

	"verif/harness/internal/tracefmt"
)

const (
	ns            = "ns"
	nodeName      = "n1"
	schedulerName = "kai-scheduler"
	queueName     = "q"
	capCentiGPU   = 100
	nodeMilliCPU  = 8000
	podMilliCPU   = 1000
	syncTimeout   = 60 * time.Second // failure detector only
)

type step struct {
	N   string `json:"n"`
	P   string `json:"p"`
	Out string `json:"out"`
}

type scenario struct {
	ID      string         `json:"id"`
	Lim     int            `json:"lim"`
	Req     map[string]int `json:"req"`
	Present []string       `json:"present"`
	Steps   []step         `json:"steps"`
}

func infra(format string, a ...any) {
	fmt.Fprintf(os.Stderr, "handoff: INFRA: "+format+"\n", a...)
	os.Exit(2)
}

// ---------------------------------------------------------------------------------------------------
// the world: two fake stores, the real scheduler cache, the real reconciler
// ---------------------------------------------------------------------------------------------------
type world struct {
	sc      scenario
	pods    []string // all pod names of the scenario (sorted), present or not
	kube    *kubefake.Clientset
	kai     *kaifake.Clientset
	cache   schedcache.Cache
	stopCh  chan struct{}
	schedCf *conf.SchedulerConfiguration
	params  *conf.SchedulerParams

	bclient    client.WithWatch
	scheme     *k8sruntime.Scheme
	reconciler *controllers.BindRequestReconciler

	// fault injection for the reconcile in flight
	failBind        bool
	failStatusPatch bool
	// observations of the reconcile in flight
	bindCalled, bindFailed, getFailed bool

	// harness-side bookkeeping (ghost state of the trace)
	createCalls     int
	lastUID         map[string]types.UID
	created         map[string]int  // BindRequest incarnations per pod (distinct UIDs observed in the store)
	q               map[string]bool // controller-runtime work queue (see spec/Handoff.tla)
	att             map[string]int  // binding sub-resource calls of the current incarnation
	fl              map[string]int  // failed reconciles of the current incarnation
	restarts, flips int
	barriers        int

	watchMu  sync.Mutex
	watching map[string]bool
}

func int32p(v int32) *int32 { return &v }

func newWorld(sc scenario, pods []string) *world {
	w := &world{sc: sc, pods: pods, watching: map[string]bool{}, lastUID: map[string]types.UID{}, created: map[string]int{}, q: map[string]bool{}, att: map[string]int{}, fl: map[string]int{}}
	w.kube = kubefake.NewSimpleClientset()
	w.kai = kaifake.NewSimpleClientset()
	ctx := context.Background()
	// The fake object tracker does not replay changes made between an informer's List and its Watch: record when
	// each watch is registered, so that no step runs before the scheduler's informers really follow the store.
	trackWatches := func(f *k8stesting.Fake, tracker k8stesting.ObjectTracker) {
		f.PrependWatchReactor("*", func(a k8stesting.Action) (bool, watch.Interface, error) {
			var opts metav1.ListOptions
			if wa, ok := a.(k8stesting.WatchActionImpl); ok {
				opts = wa.ListOptions
			}
			wi, err := tracker.Watch(a.GetResource(), a.GetNamespace(), opts)
			if err != nil {
				return false, nil, err
			}
			w.watchMu.Lock()
			w.watching[a.GetResource().Resource] = true
			w.watchMu.Unlock()
			return true, wi, nil
		})
	}
	trackWatches(&w.kube.Fake, w.kube.Tracker())
	trackWatches(&w.kai.Fake, w.kai.Tracker())

	// the BindRequest is created by the real cache.Bind; spec.backoffLimit is set on admission (the scheduler
	// leaves it nil), the store assigns the UID.
	w.kai.PrependReactor("create", "bindrequests", func(a k8stesting.Action) (bool, k8sruntime.Object, error) {
		br := a.(k8stesting.CreateAction).GetObject().(*schedulingv1alpha2.BindRequest)
		w.createCalls++ // attempts; an incarnation is counted when a new UID is observed in the store (observeBrs)
		br.UID = types.UID(fmt.Sprintf("br-%s-%d", br.Spec.PodName, w.createCalls))
		if w.sc.Lim >= 0 {
			br.Spec.BackoffLimit = int32p(int32(w.sc.Lim))
		}
		return false, nil, nil
	})

	mustCreate := func(err error) {
		if err != nil {
			infra("create object: %v", err)
		}
	}
	_, err := w.kube.CoreV1().Nodes().Create(ctx, w.nodeObject(), metav1.CreateOptions{})
	mustCreate(err)
	unlimited := schedulingv2.QueueResource{Quota: -1, Limit: -1, OverQuotaWeight: 1}
	for _, q := range []struct{ name, parent string }{{"root", ""}, {queueName, "root"}} {
		_, err = w.kai.SchedulingV2().Queues("").Create(ctx, &schedulingv2.Queue{
			ObjectMeta: metav1.ObjectMeta{Name: q.name},
			Spec: schedulingv2.QueueSpec{ParentQueue: q.parent,
				Resources: &schedulingv2.QueueResources{GPU: unlimited, CPU: unlimited, Memory: unlimited}},
		}, metav1.CreateOptions{})
		mustCreate(err)
	}
	present := map[string]bool{}
	for _, p := range sc.Present {
		present[p] = true
	}
	for i, p := range pods {
		if !present[p] {
			continue
		}
		pg := &schedulingv2alpha2.PodGroup{
			ObjectMeta: metav1.ObjectMeta{Name: "pg-" + p, Namespace: ns, UID: types.UID("pg-uid-" + p),
				Labels:            map[string]string{commonconsts.DefaultQueueLabel: queueName},
				CreationTimestamp: metav1.NewTime(time.Date(2024, 1, 1, 0, 0, i, 0, time.UTC))},
			Spec: schedulingv2alpha2.PodGroupSpec{Queue: queueName, MinMember: 1},
		}
		_, err = w.kai.SchedulingV2alpha2().PodGroups(ns).Create(ctx, pg, metav1.CreateOptions{})
		mustCreate(err)
		_, err = w.kube.CoreV1().Pods(ns).Create(ctx, podObject(p, sc.Req[p], i), metav1.CreateOptions{})
		mustCreate(err)
	}

	partition := &conf.SchedulingNodePoolParams{}
	w.params = &conf.SchedulerParams{SchedulerName: schedulerName, PartitionParams: partition, NumOfStatusRecordingWorkers: 2}
	w.schedCf, err = conf_util.GetDefaultSchedulerConf()
	if err != nil {
		infra("default scheduler conf: %v", err)
	}
	w.cache = schedcache.New(&schedcache.SchedulerCacheParams{
		KubeClient: w.kube, KAISchedulerClient: w.kai, SchedulerName: schedulerName, NodePoolParams: partition,
		NumOfStatusRecordingWorkers: 2, DiscoveryClient: w.kube.Discovery(),
	})
	if w.cache == nil || reflect.ValueOf(w.cache).IsNil() {
		infra("cache.New returned nil")
	}
	w.stopCh = make(chan struct{})
	w.cache.Run(w.stopCh)
	// WaitForCacheSync polls every 100ms after an immediate first check: give the (in-memory) initial lists a
	// moment so that the first check usually succeeds. Correctness does not depend on this (waitInformers).
	time.Sleep(4 * time.Millisecond)
	w.cache.WaitForCacheSync(w.stopCh)
	deadline := time.Now().Add(syncTimeout)
	for {
		w.watchMu.Lock()
		up := true
		for _, r := range []string{"pods", "nodes", "bindrequests", "podgroups", "queues"} {
			up = up && w.watching[r]
		}
		w.watchMu.Unlock()
		if up {
			break
		}
		if time.Now().After(deadline) {
			infra("the scheduler's informers did not start watching within %v", syncTimeout)
		}
		time.Sleep(200 * time.Microsecond)
	}

	// binder side
	w.scheme = k8sruntime.NewScheme()
	if err := corev1.AddToScheme(w.scheme); err != nil {
		infra("scheme: %v", err)
	}
	if err := kaischeme.AddToScheme(w.scheme); err != nil {
		infra("scheme: %v", err)
	}
	w.bclient = ctrlfake.NewClientBuilder().WithScheme(w.scheme).
		WithIndex(&corev1.Pod{}, "spec.nodeName", func(o client.Object) []string { return []string{o.(*corev1.Pod).Spec.NodeName} }).
		WithStatusSubresource(&schedulingv1alpha2.BindRequest{}).
		WithInterceptorFuncs(interceptor.Funcs{
			Get: func(ctx context.Context, c client.WithWatch, key client.ObjectKey, obj client.Object, opts ...client.GetOption) error {
				err := c.Get(ctx, key, obj, opts...)
				if err != nil {
					switch obj.(type) {
					case *corev1.Pod, *corev1.Node:
						w.getFailed = true
					}
				}
				return err
			},
			SubResourceCreate: func(ctx context.Context, c client.Client, sub string, obj client.Object, subObj client.Object, opts ...client.SubResourceCreateOption) error {
				if sub != "binding" {
					return c.SubResource(sub).Create(ctx, obj, subObj, opts...)
				}
				w.bindCalled = true
				if w.failBind {
					w.bindFailed = true
					return apierrors.NewServiceUnavailable("verif: injected failure of the binding sub-resource")
				}
				// what the API server does on pods/binding
				pod := &corev1.Pod{}
				if err := c.Get(ctx, client.ObjectKeyFromObject(obj), pod); err != nil {
					return err
				}
				if pod.Spec.NodeName != "" {
					return apierrors.NewConflict(corev1.Resource("pods"), pod.Name, errors.New("pod is already assigned to a node"))
				}
				pod.Spec.NodeName = subObj.(*corev1.Binding).Target.Name
				return c.Update(ctx, pod)
			},
			SubResourcePatch: func(ctx context.Context, c client.Client, sub string, obj client.Object, patch client.Patch, opts ...client.SubResourcePatchOption) error {
				if _, isBr := obj.(*schedulingv1alpha2.BindRequest); isBr && sub == "status" && w.failStatusPatch {
					return apierrors.NewServiceUnavailable("verif: injected failure of the BindRequest status patch")
				}
				return c.SubResource(sub).Patch(ctx, obj, patch, opts...)
			},
		}).Build()
	w.newReconciler()
	return w
}

func (w *world) newReconciler() {
	binder := binding.NewBinder(w.bclient, noReservation{w.bclient}, binderplugins.New())
	w.reconciler = controllers.NewBindRequestReconciler(w.bclient, w.scheme, record.NewFakeRecorder(10000),
		&controllers.ReconcilerParams{MaxConcurrentReconciles: 1, RateLimiterBaseDelaySeconds: 1, RateLimiterMaxDelaySeconds: 60},
		binder, noReservation{w.bclient})
}

func (w *world) close() { close(w.stopCh) }

func (w *world) nodeObject() *corev1.Node {
	rl := corev1.ResourceList{
		corev1.ResourceCPU:    *resource.NewMilliQuantity(nodeMilliCPU, resource.DecimalSI),
		corev1.ResourceMemory: resource.MustParse("16Gi"),
		corev1.ResourcePods:   resource.MustParse("110"),
		"nvidia.com/gpu":      *resource.NewQuantity(capCentiGPU/100, resource.DecimalSI),
	}
	return &corev1.Node{
		// a re-created node gets a new UID: waitInformers compares objects, an identical re-creation would be
		// indistinguishable from the not-yet-processed deletion of its predecessor
		ObjectMeta: metav1.ObjectMeta{Name: nodeName, UID: types.UID(fmt.Sprintf("node-uid-%d", w.flips)), Labels: map[string]string{"nvidia.com/gpu.count": "1"}},
		Status: corev1.NodeStatus{Capacity: rl, Allocatable: rl.DeepCopy(),
			Conditions: []corev1.NodeCondition{{Type: corev1.NodeReady, Status: corev1.ConditionTrue}}},
	}
}

func podObject(name string, req int, idx int) *corev1.Pod {
	requests := corev1.ResourceList{corev1.ResourceCPU: *resource.NewMilliQuantity(podMilliCPU, resource.DecimalSI)}
	ann := map[string]string{commonconsts.PodGroupAnnotationForPod: "pg-" + name}
	if req >= 100 {
		requests["nvidia.com/gpu"] = *resource.NewQuantity(int64(req/100), resource.DecimalSI)
	} else {
		ann[commonconsts.GpuFraction] = fmt.Sprintf("%.2f", float64(req)/100)
	}
	return &corev1.Pod{
		ObjectMeta: metav1.ObjectMeta{Name: name, Namespace: ns, UID: types.UID("pod-uid-" + name), Annotations: ann,
			CreationTimestamp: metav1.NewTime(time.Date(2024, 1, 1, 0, 0, idx, 0, time.UTC))},
		Spec: corev1.PodSpec{SchedulerName: schedulerName,
			Containers: []corev1.Container{{Name: "c", Image: "img", Resources: corev1.ResourceRequirements{Requests: requests, Limits: requests.DeepCopy()}}}},
		Status: corev1.PodStatus{Phase: corev1.PodPending},
	}
}

// noReservation stands in for the GPU reservation service (reservation pods are the subject of C11/C17):
// like the real service it labels a fractional pod with its GPU group, nothing else.
type noReservation struct{ c client.Client }

func (noReservation) Sync(context.Context) error                    { return nil }
func (noReservation) SyncForNode(context.Context, string) error     { return nil }
func (noReservation) SyncForGpuGroup(context.Context, string) error { return nil }
func (r noReservation) ReserveGpuDevice(ctx context.Context, pod *corev1.Pod, _ string, gpuGroup string) (string, error) {
	orig := pod.DeepCopy()
	if pod.Labels == nil {
		pod.Labels = map[string]string{}
	}
	pod.Labels[commonconsts.GPUGroup] = gpuGroup
	return "0", r.c.Patch(ctx, pod, client.MergeFrom(orig))
}
func (r noReservation) RemovePodGpuGroupsConnection(ctx context.Context, pod *corev1.Pod) error {
	cur := &corev1.Pod{}
	if err := r.c.Get(ctx, client.ObjectKeyFromObject(pod), cur); err != nil {
		return client.IgnoreNotFound(err)
	}
	if _, ok := cur.Labels[commonconsts.GPUGroup]; !ok {
		return nil
	}
	orig := cur.DeepCopy()
	delete(cur.Labels, commonconsts.GPUGroup)
	return r.c.Patch(ctx, cur, client.MergeFrom(orig))
}

// ---------------------------------------------------------------------------------------------------
// store access (scheduler side = source of truth between steps)
// ---------------------------------------------------------------------------------------------------
func (w *world) getPod(p string) *corev1.Pod {
	pod, err := w.kube.CoreV1().Pods(ns).Get(context.Background(), p, metav1.GetOptions{})
	if err != nil {
		return nil
	}
	return pod
}

func (w *world) getBr(p string) *schedulingv1alpha2.BindRequest {
	br, err := w.kai.SchedulingV1alpha2().BindRequests(ns).Get(context.Background(), p, metav1.GetOptions{})
	if err != nil {
		return nil
	}
	return br
}

func (w *world) nodeUp() bool {
	_, err := w.kube.CoreV1().Nodes().Get(context.Background(), nodeName, metav1.GetOptions{})
	return err == nil
}

// barrier waits until the scheduler's informers have processed every event emitted so far. Comparing the
// listers with the store is not enough: a change that is undone before the informer has seen it (node added
// and deleted again, or deleted and re-created) leaves lister == store while events are still in flight, and
// the snapshot taken next may see the intermediate state. Each watch stream is FIFO, so a marker object that
// is created after all real changes - and observed in the lister - proves that everything before it has been
// processed; it is deleted again (and the deletion observed) before the cycle starts, so no snapshot ever
// contains it.
func (w *world) barrier() {
	if os.Getenv("VERIF_HANDOFF_NO_BARRIER") != "" { // self-test of the harness only
		return
	}
	ctx := context.Background()
	dl := w.cache.GetDataLister()
	w.barriers++
	name := fmt.Sprintf("verif-barrier-%d", w.barriers)
	const bns = "verif-barrier"
	if _, err := w.kube.CoreV1().Nodes().Create(ctx, &corev1.Node{ObjectMeta: metav1.ObjectMeta{Name: name}}, metav1.CreateOptions{}); err != nil {
		infra("barrier node: %v", err)
	}
	if _, err := w.kube.CoreV1().Pods(bns).Create(ctx, &corev1.Pod{ObjectMeta: metav1.ObjectMeta{Name: name, Namespace: bns},
		Spec: corev1.PodSpec{SchedulerName: "verif-barrier"}, Status: corev1.PodStatus{Phase: corev1.PodSucceeded}}, metav1.CreateOptions{}); err != nil {
		infra("barrier pod: %v", err)
	}
	if _, err := w.kai.SchedulingV1alpha2().BindRequests(bns).Create(ctx, &schedulingv1alpha2.BindRequest{
		ObjectMeta: metav1.ObjectMeta{Name: name, Namespace: bns}, Spec: schedulingv1alpha2.BindRequestSpec{PodName: name, SelectedNode: name}}, metav1.CreateOptions{}); err != nil {
		infra("barrier bindrequest: %v", err)
	}
	seen := func() (n, p, b bool) {
		nodes, _ := dl.ListNodes()
		for _, o := range nodes {
			n = n || o.Name == name
		}
		pods, _ := dl.ListPods()
		for _, o := range pods {
			p = p || (o.Namespace == bns && o.Name == name)
		}
		brs, _ := dl.ListBindRequests()
		for _, o := range brs {
			b = b || (o.Namespace == bns && o.Name == name)
		}
		return
	}
	wait := func(want bool, what string) {
		deadline := time.Now().Add(syncTimeout)
		for i := 0; ; i++ {
			n, p, b := seen()
			if n == want && p == want && b == want {
				return
			}
			if time.Now().After(deadline) {
				infra("scheduler informers did not process the barrier (%s) within %v (scenario %s)", what, syncTimeout, w.sc.ID)
			}
			if i < 200 {
				runtime.Gosched()
			} else {
				time.Sleep(100 * time.Microsecond)
			}
		}
	}
	wait(true, "create")
	if err := w.kube.CoreV1().Nodes().Delete(ctx, name, metav1.DeleteOptions{}); err != nil {
		infra("barrier node delete: %v", err)
	}
	if err := w.kube.CoreV1().Pods(bns).Delete(ctx, name, metav1.DeleteOptions{}); err != nil {
		infra("barrier pod delete: %v", err)
	}
	if err := w.kai.SchedulingV1alpha2().BindRequests(bns).Delete(ctx, name, metav1.DeleteOptions{}); err != nil {
		infra("barrier bindrequest delete: %v", err)
	}
	wait(false, "delete")
}

// waitInformers blocks until the scheduler's informer caches equal the store (the informers are asynchronous).
func (w *world) waitInformers() {
	w.barrier()
	if os.Getenv("VERIF_HANDOFF_NO_WAIT") != "" { // self-test of the harness only
		return
	}
	ctx := context.Background()
	dl := w.cache.GetDataLister()
	deadline := time.Now().Add(syncTimeout)
	for {
		ok := true
		pods, _ := w.kube.CoreV1().Pods(ns).List(ctx, metav1.ListOptions{})
		lpods, err := dl.ListPods()
		ok = ok && err == nil && sameObjects(len(pods.Items), func(i int) (string, any) { return pods.Items[i].Name, &pods.Items[i] },
			len(lpods), func(i int) (string, any) { return lpods[i].Name, lpods[i] })
		nodes, _ := w.kube.CoreV1().Nodes().List(ctx, metav1.ListOptions{})
		lnodes, err := dl.ListNodes()
		ok = ok && err == nil && sameObjects(len(nodes.Items), func(i int) (string, any) { return nodes.Items[i].Name, &nodes.Items[i] },
			len(lnodes), func(i int) (string, any) { return lnodes[i].Name, lnodes[i] })
		brs, _ := w.kai.SchedulingV1alpha2().BindRequests(ns).List(ctx, metav1.ListOptions{})
		lbrs, err := dl.ListBindRequests()
		ok = ok && err == nil && sameObjects(len(brs.Items), func(i int) (string, any) { return brs.Items[i].Name, &brs.Items[i] },
			len(lbrs), func(i int) (string, any) { return lbrs[i].Name, lbrs[i] })
		if ok {
			return
		}
		if time.Now().After(deadline) {
			infra("scheduler informers did not catch up with the store within %v (scenario %s)", syncTimeout, w.sc.ID)
		}
		time.Sleep(200 * time.Microsecond)
	}
}

func sameObjects(n int, a func(int) (string, any), m int, b func(int) (string, any)) bool {
	if n != m {
		return false
	}
	byName := map[string]any{}
	for i := 0; i < n; i++ {
		k, v := a(i)
		byName[k] = v
	}
	for i := 0; i < m; i++ {
		k, v := b(i)
		o, found := byName[k]
		if !found || !reflect.DeepEqual(o, v) {
			return false
		}
	}
	return true
}

// ---------------------------------------------------------------------------------------------------
// hand-off synchronisation of the two stores
// ---------------------------------------------------------------------------------------------------
func (w *world) syncToBinder() {
	ctx := context.Background()
	replace := func(cur client.ObjectList, want []client.Object) {
		if err := w.bclient.List(ctx, cur); err != nil {
			infra("binder store list: %v", err)
		}
		have := map[string]client.Object{}
		items, _ := extractList(cur)
		for _, o := range items {
			have[o.GetNamespace()+"/"+o.GetName()] = o
		}
		for _, o := range want {
			key := o.GetNamespace() + "/" + o.GetName()
			if h, ok := have[key]; ok {
				delete(have, key)
				hc := h.DeepCopyObject().(client.Object)
				hc.SetResourceVersion("")
				oc := o.DeepCopyObject().(client.Object)
				oc.SetResourceVersion("")
				if reflect.DeepEqual(hc, oc) {
					continue
				}
				if err := w.bclient.Delete(ctx, h); err != nil {
					infra("binder store delete: %v", err)
				}
			}
			o.SetResourceVersion("")
			if err := w.bclient.Create(ctx, o); err != nil {
				infra("binder store create %s: %v", key, err)
			}
		}
		for _, h := range have {
			if err := w.bclient.Delete(ctx, h); err != nil {
				infra("binder store delete: %v", err)
			}
		}
	}
	nodes, _ := w.kube.CoreV1().Nodes().List(ctx, metav1.ListOptions{})
	var want []client.Object
	for i := range nodes.Items {
		want = append(want, nodes.Items[i].DeepCopy())
	}
	replace(&corev1.NodeList{}, want)
	pods, _ := w.kube.CoreV1().Pods(ns).List(ctx, metav1.ListOptions{})
	want = nil
	for i := range pods.Items {
		want = append(want, pods.Items[i].DeepCopy())
	}
	replace(&corev1.PodList{}, want)
	brs, _ := w.kai.SchedulingV1alpha2().BindRequests(ns).List(ctx, metav1.ListOptions{})
	want = nil
	for i := range brs.Items {
		want = append(want, brs.Items[i].DeepCopy())
	}
	replace(&schedulingv1alpha2.BindRequestList{}, want)
}

func extractList(l client.ObjectList) ([]client.Object, error) {
	var out []client.Object
	switch t := l.(type) {
	case *corev1.NodeList:
		for i := range t.Items {
			out = append(out, &t.Items[i])
		}
	case *corev1.PodList:
		for i := range t.Items {
			out = append(out, &t.Items[i])
		}
	case *schedulingv1alpha2.BindRequestList:
		for i := range t.Items {
			out = append(out, &t.Items[i])
		}
	}
	return out, nil
}

// syncFromBinder copies what the binder changed (pods, BindRequests) back into the scheduler's store.
func (w *world) syncFromBinder() {
	ctx := context.Background()
	pods := &corev1.PodList{}
	if err := w.bclient.List(ctx, pods, client.InNamespace(ns)); err != nil {
		infra("binder store list pods: %v", err)
	}
	for i := range pods.Items {
		bp := pods.Items[i].DeepCopy()
		ap := w.getPod(bp.Name)
		if ap == nil {
			continue
		}
		bp.ResourceVersion = ap.ResourceVersion
		if reflect.DeepEqual(ap, bp) {
			continue
		}
		if _, err := w.kube.CoreV1().Pods(ns).Update(ctx, bp, metav1.UpdateOptions{}); err != nil {
			infra("scheduler store update pod: %v", err)
		}
	}
	brs := &schedulingv1alpha2.BindRequestList{}
	if err := w.bclient.List(ctx, brs, client.InNamespace(ns)); err != nil {
		infra("binder store list bindrequests: %v", err)
	}
	seen := map[string]bool{}
	for i := range brs.Items {
		bb := brs.Items[i].DeepCopy()
		seen[bb.Name] = true
		ab := w.getBr(bb.Name)
		if ab == nil {
			continue
		}
		bb.ResourceVersion = ab.ResourceVersion
		if reflect.DeepEqual(ab, bb) {
			continue
		}
		if _, err := w.kai.SchedulingV1alpha2().BindRequests(ns).Update(ctx, bb, metav1.UpdateOptions{}); err != nil {
			infra("scheduler store update bindrequest: %v", err)
		}
	}
	abrs, _ := w.kai.SchedulingV1alpha2().BindRequests(ns).List(ctx, metav1.ListOptions{})
	for i := range abrs.Items {
		if !seen[abrs.Items[i].Name] { // deleted by the binder
			_ = w.kai.SchedulingV1alpha2().BindRequests(ns).Delete(ctx, abrs.Items[i].Name, metav1.DeleteOptions{})
		}
	}
}

// ---------------------------------------------------------------------------------------------------
// projections
// ---------------------------------------------------------------------------------------------------
func b2i(b bool) int {
	if b {
		return 1
	}
	return 0
}

func (w *world) projectStore() map[string]any {
	pods := map[string]any{}
	for _, p := range w.pods {
		pod := w.getPod(p)
		br := w.getBr(p)
		if br != nil && br.UID != w.lastUID[p] {
			w.lastUID[p] = br.UID
			w.created[p]++
		}
		e := map[string]any{"alive": b2i(pod != nil), "bound": 0, "node": "", "ex": b2i(br != nil), "ph": "", "fa": 0, "lim": -1,
			"sel": "", "gen": w.created[p] % 2, "q": b2i(w.q[p]), "att": w.att[p], "fl": w.fl[p]}
		if pod != nil {
			e["bound"] = b2i(pod.Spec.NodeName != "")
			e["node"] = pod.Spec.NodeName
		}
		if br != nil {
			ph := br.Status.Phase
			if ph == schedulingv1alpha2.BindRequestPhasePending {
				ph = ""
			}
			e["ph"] = ph
			e["fa"] = int(br.Status.FailedAttempts)
			if br.Spec.BackoffLimit != nil {
				e["lim"] = int(*br.Spec.BackoffLimit)
			}
			e["sel"] = br.Spec.SelectedNode
		}
		pods[p] = e
	}
	return map[string]any{"up": b2i(w.nodeUp()), "flips": w.flips, "restarts": w.restarts, "pods": pods}
}

func noSnap(pods []string) map[string]any {
	st, on, grp := map[string]any{}, map[string]any{}, map[string]any{}
	for _, p := range pods {
		st[p], on[p], grp[p] = "", "", 0
	}
	return map[string]any{"st": st, "on": on, "grp": grp, "idle": 0, "cpu": 0, "node": 0, "taken": 0}
}

var noRec = map[string]any{"ran": 0, "err": 0, "rq": 0, "patched": 0, "bind": 0, "msg": ""}

func (w *world) projectSnapshot(ssn *framework.Session) map[string]any {
	out := noSnap(w.pods)
	out["taken"] = 1
	st, on, grp := out["st"].(map[string]any), out["on"].(map[string]any), out["grp"].(map[string]any)
	for _, p := range w.pods {
		st[p] = "None"
	}
	for _, pg := range ssn.ClusterInfo.PodGroupInfos {
		for _, pi := range pg.GetAllPodsMap() {
			if _, known := st[pi.Name]; !known {
				continue
			}
			st[pi.Name] = pi.Status.String()
			on[pi.Name] = pi.NodeName
			grp[pi.Name] = len(pi.GPUGroups)
		}
	}
	if ni, found := ssn.ClusterInfo.Nodes[nodeName]; found {
		idle, _ := ni.GetSumOfIdleGPUs()
		out["idle"] = int(math.Round(idle * 100))
		out["cpu"] = int(math.Round(ni.Idle.Cpu()))
		out["node"] = 1
	}
	return out
}

// ---------------------------------------------------------------------------------------------------
// steps
// ---------------------------------------------------------------------------------------------------
func (w *world) brNames() map[string]types.UID {
	out := map[string]types.UID{}
	for _, p := range w.pods {
		if br := w.getBr(p); br != nil {
			out[p] = br.UID
		}
	}
	return out
}

func (w *world) schedCycle() map[string]any {
	w.waitInformers()
	before := w.brNames()
	ssn, err := framework.OpenSession(w.cache, w.schedCf, w.params, "verif", &http.ServeMux{})
	if err != nil {
		infra("OpenSession: %v", err)
	}
	snap := w.projectSnapshot(ssn)
	acts, err := conf_util.GetActionsFromConfig(w.schedCf)
	if err != nil {
		infra("actions: %v", err)
	}
	for _, a := range acts {
		a.Execute(ssn)
	}
	framework.CloseSession(ssn)
	after := w.brNames()
	for _, p := range w.pods {
		b, hadBefore := before[p]
		a, hasAfter := after[p]
		switch {
		case hasAfter && (!hadBefore || a != b): // new incarnation: create event
			w.q[p], w.att[p], w.fl[p] = true, 0, 0
		case hadBefore && !hasAfter:
			w.q[p], w.att[p], w.fl[p] = false, 0, 0
		}
	}
	return snap
}

func (w *world) reconcile(p string, failBind, failStatusPatch bool) map[string]any {
	w.syncToBinder()
	w.failBind, w.failStatusPatch = failBind, failStatusPatch
	w.bindCalled, w.bindFailed, w.getFailed = false, false, false
	rvBefore := ""
	cur := &schedulingv1alpha2.BindRequest{}
	key := types.NamespacedName{Namespace: ns, Name: p}
	existed := w.bclient.Get(context.Background(), key, cur) == nil
	if existed {
		rvBefore = cur.ResourceVersion
	}
	w.getFailed = false
	res, err := w.reconciler.Reconcile(ctrllog.IntoContext(context.Background(), ctrllog.Log), ctrl.Request{NamespacedName: key})
	getFailed, bindCalled, bindFailed := w.getFailed, w.bindCalled, w.bindFailed
	w.failBind, w.failStatusPatch = false, false
	patched := false
	after := &schedulingv1alpha2.BindRequest{}
	if w.bclient.Get(context.Background(), key, after) == nil {
		patched = existed && after.ResourceVersion != rvBefore
	}
	w.syncFromBinder()
	if bindCalled {
		w.att[p]++
	}
	if bindFailed || getFailed {
		w.fl[p]++
	}
	rq := 0
	if res.RequeueAfter > 0 {
		rq = int(res.RequeueAfter / time.Second)
	}
	w.q[p] = patched || err != nil || res.RequeueAfter > 0 || res.Requeue
	msg := ""
	if err != nil {
		msg = err.Error()
		if len(msg) > 160 {
			msg = msg[:160]
		}
	}
	return map[string]any{"ran": 1, "err": b2i(err != nil), "rq": rq, "patched": b2i(patched), "bind": b2i(bindCalled), "msg": msg}
}

// apply executes one step of the schedule; returns (snap, rec, skipped).
func (w *world) apply(s step) (map[string]any, map[string]any, int) {
	ctx := context.Background()
	snap, rec := noSnap(w.pods), noRec
	if !w.enabled(s, math.MaxInt32, math.MaxInt32) { // not enabled in the real state: skipped (rec.ran = 0)
		return snap, rec, 1
	}
	switch s.N {
	case "SchedCycle":
		snap = w.schedCycle()
	case "BinderAttempt": // only queued keys are reconciled (controller-runtime work queue)
		rec = w.reconcile(s.P, s.Out == "fail", false)
	case "BindDoneStatusLost":
		rec = w.reconcile(s.P, false, true)
	case "BinderRestart":
		w.newReconciler()
		w.restarts++
		for _, p := range w.pods {
			w.q[p] = w.getBr(p) != nil
		}
	case "NodeDeleted":
		if err := w.kube.CoreV1().Nodes().Delete(ctx, nodeName, metav1.DeleteOptions{}); err != nil {
			infra("delete node: %v", err)
		}
		w.flips++
	case "NodeAdded":
		if _, err := w.kube.CoreV1().Nodes().Create(ctx, w.nodeObject(), metav1.CreateOptions{}); err != nil {
			infra("create node: %v", err)
		}
		w.flips++
	case "PodDeleted":
		if err := w.kube.CoreV1().Pods(ns).Delete(ctx, s.P, metav1.DeleteOptions{}); err != nil {
			infra("delete pod: %v", err)
		}
	case "GcBr": // the k8s garbage collector removes the BindRequest owned by a deleted pod
		if err := w.kai.SchedulingV1alpha2().BindRequests(ns).Delete(ctx, s.P, metav1.DeleteOptions{}); err != nil {
			infra("gc bindrequest: %v", err)
		}
		w.q[s.P], w.att[s.P], w.fl[s.P] = false, 0, 0
	}
	return snap, rec, 0
}

// enabled: is the step meaningful in the current real state (used by the random generator only)
func (w *world) enabled(s step, maxRestarts, maxFlips int) bool {
	switch s.N {
	case "SchedCycle":
		return true
	case "BinderAttempt":
		return w.q[s.P]
	case "BindDoneStatusLost":
		br, pod := w.getBr(s.P), w.getPod(s.P)
		return w.q[s.P] && br != nil && br.Status.Phase != schedulingv1alpha2.BindRequestPhaseSucceeded && pod != nil && pod.Spec.NodeName == "" && w.nodeUp()
	case "BinderRestart":
		if w.restarts >= maxRestarts {
			return false
		}
		for _, p := range w.pods {
			if w.getBr(p) != nil && !w.q[p] {
				return true
			}
		}
		return false
	case "NodeDeleted":
		return w.nodeUp() && w.flips < maxFlips
	case "NodeAdded":
		return !w.nodeUp() && w.flips < maxFlips
	case "PodDeleted":
		return w.getPod(s.P) != nil
	case "GcBr":
		return w.getBr(s.P) != nil && w.getPod(s.P) == nil
	}
	infra("unknown step %q", s.N)
	return false
}

// ---------------------------------------------------------------------------------------------------
func runScenario(sc scenario, pods []string, tw *tracefmt.Writer, rnd *rand.Rand, randomLen int) {
	w := newWorld(sc, pods)
	defer w.close()
	req := map[string]any{}
	for _, p := range pods {
		req[p] = sc.Req[p]
	}
	seq := 0
	tw.Emit(map[string]any{"ev": "Scenario", "id": sc.ID, "lim": sc.Lim, "req": req, "seq": seq, "p": "", "out": "", "skip": 0,
		"st": w.projectStore(), "snap": noSnap(pods), "rec": noRec})
	emit := func(s step) {
		snap, rec, skip := w.apply(s)
		seq++
		tw.Emit(map[string]any{"ev": s.N, "id": sc.ID, "lim": sc.Lim, "req": req, "seq": seq, "p": s.P, "out": s.Out, "skip": skip,
			"st": w.projectStore(), "snap": snap, "rec": rec})
	}
	if rnd == nil {
		for _, s := range sc.Steps {
			emit(s)
		}
		return
	}
	// seeded random schedule over the steps enabled in the real state
	persistFail := rnd.Intn(4) == 0
	for i := 0; i < randomLen; i++ {
		var cands []step
		add := func(s step, weight int) {
			if w.enabled(s, 2, 4) {
				for k := 0; k < weight; k++ {
					cands = append(cands, s)
				}
			}
		}
		add(step{N: "SchedCycle"}, 6)
		add(step{N: "BinderRestart"}, 1)
		add(step{N: "NodeDeleted"}, 1)
		add(step{N: "NodeAdded"}, 3)
		for _, p := range pods {
			add(step{N: "BinderAttempt", P: p, Out: "fail"}, 6)
			if !persistFail {
				add(step{N: "BinderAttempt", P: p, Out: "ok"}, 3)
				add(step{N: "BindDoneStatusLost", P: p}, 1)
			}
			add(step{N: "PodDeleted", P: p}, 1)
			add(step{N: "GcBr", P: p}, 3)
		}
		emit(cands[rnd.Intn(len(cands))])
	}
}

func main() {
	in := flag.String("in", "", "ndjson schedules exported by TLC")
	out := flag.String("out", "trace.ndjson", "ndjson trace")
	random := flag.Int("random", 0, "number of seeded random schedules")
	seed := flag.Int64("seed", 1, "seed")
	length := flag.Int("len", 25, "length of a random schedule")
	npods := flag.Int("pods", 3, "pods in a random scenario (names p1..pN)")
	verbosity := flag.Int("v", 0, "scheduler log verbosity")
	flag.Parse()

	if err := schedlog.InitLoggers(*verbosity); err != nil {
		infra("loggers: %v", err)
	}
	ctrllog.SetLogger(logr.Discard())
	actions.InitDefaultActions()
	plugins.InitDefaultPlugins()

	tw, err := tracefmt.Create(*out)
	if err != nil {
		infra("create %s: %v", *out, err)
	}
	n, steps := 0, 0
	t0 := time.Now()
	if *in != "" {
		f, err := os.Open(*in)
		if err != nil {
			infra("open %s: %v", *in, err)
		}
		rd := bufio.NewScanner(f)
		rd.Buffer(make([]byte, 1<<20), 1<<26)
		for rd.Scan() {
			if len(rd.Bytes()) == 0 {
				continue
			}
			var sc scenario
			if err := json.Unmarshal(rd.Bytes(), &sc); err != nil {
				infra("bad schedule line: %v", err)
			}
			pods := make([]string, 0, len(sc.Req))
			for p := range sc.Req {
				pods = append(pods, p)
			}
			sort.Strings(pods)
			runScenario(sc, pods, tw, nil, 0)
			n++
			steps += len(sc.Steps)
		}
		f.Close()
	}
	if *random > 0 {
		rnd := rand.New(rand.NewSource(*seed))
		lims := []int{-1, 0, 1, 2, 3, 4}
		reqs := []int{100, 100, 50, 50, 25}
		for i := 0; i < *random; i++ {
			sc := scenario{ID: fmt.Sprintf("rnd-%d-%d", *seed, i), Lim: lims[rnd.Intn(len(lims))], Req: map[string]int{}}
			var pods []string
			for k := 1; k <= *npods; k++ {
				p := fmt.Sprintf("p%d", k)
				pods = append(pods, p)
				sc.Req[p] = reqs[rnd.Intn(len(reqs))]
				if k == 1 || rnd.Intn(5) > 0 {
					sc.Present = append(sc.Present, p)
				}
			}
			runScenario(sc, pods, tw, rnd, *length)
			n++
			steps += *length
		}
	}
	if err := tw.Close(); err != nil {
		infra("close trace: %v", err)
	}
	fmt.Printf("scenarios=%d steps=%d events=%d wall=%.1fs\n", n, steps, tw.Count(), time.Since(t0).Seconds())
}
