// Command handoff replays scheduler/binder interleavings on the REAL scheduler cache and the REAL
// BindRequestReconciler (C12 - BindRequest hand-off).
//
// Scheduler side: client-go fake clientset + KAI fake clientset -> cache.New -> Run/WaitForCacheSync ->
// framework.OpenSession (real Snapshot incl. cleanStaleBindRequest) -> every configured action ->
// CloseSession, exactly as cmd/snapshot-tool does. The allocate action creates the BindRequest through the
// real cache.Bind. Binder side: the real BindRequestReconciler + real binding.Binder on a controller-runtime
// fake client. The two fake stores are synchronised at each hand-off point of the (serial) schedule:
// scheduler store -> binder store before a binder step, binder store -> scheduler store after it. The
// `binding` sub-resource is played by a client interceptor (the fake client has no such sub-resource): it
// fails (or panics: out = "panic") when the schedule says so, otherwise sets pod.spec.nodeName.
// `BindDoneStatusLost` fails the BindRequest status patch instead. `SchedCycleRefused` is a scheduler cycle in
// which a reactor of the scheduler-side KAI clientset refuses the DELETE of stale BindRequests (of pod p, or of
// every pod for p = ""): the cycle is run as scheduler.runOnce does (an OpenSession error ends it).
//
// Pods with a DRA resource claim ("cl": the node publishes its GPUs as DRA devices, the real dynamicresources
// plugins of scheduler and binder run, out = "failclaim" refuses the claim's status update): see claim.go.
//
// Input (-in): ndjson schedules {"id","lim","gpus","req":{"p1":100,..},"nd":{..},"cl":{..},"present":["p1",..],"steps":[{"n","p","out"}]}
// as exported by TLC from spec/Handoff.tla (a step that is not enabled in the real state is skipped and
// logged with skip=1); or -random N -seed S -len K -pods P -claims PCT: seeded random schedules over the enabled steps.
// Output (-out): ndjson trace: a Scenario line, then one line per step with the projection of the real
// stores (`st`), of the real snapshot (`snap`, cycles only) and of the reconcile result (`rec`).
// Integers and strings only; -1 = nil backoffLimit; quantities in centi-GPU / milli-CPU.
package main

import (
	"bufio"
	"context"
	"encoding/json"
	"errors"
	"flag"
	"fmt"
	"math"
	"math/rand"
	"net/http"
	"os"
	"reflect"
	"runtime"
	"sort"
	"strings"
	"sync"
	"sync/atomic"
	"time"

	"github.com/go-logr/logr"
	corev1 "k8s.io/api/core/v1"
	apierrors "k8s.io/apimachinery/pkg/api/errors"
	"k8s.io/apimachinery/pkg/api/resource"
	metav1 "k8s.io/apimachinery/pkg/apis/meta/v1"
	k8sruntime "k8s.io/apimachinery/pkg/runtime"
	"k8s.io/apimachinery/pkg/types"
	"k8s.io/apimachinery/pkg/watch"
	kubefake "k8s.io/client-go/kubernetes/fake"
	k8stesting "k8s.io/client-go/testing"
	"k8s.io/client-go/tools/record"
	ctrl "sigs.k8s.io/controller-runtime"
	"sigs.k8s.io/controller-runtime/pkg/client"
	ctrlfake "sigs.k8s.io/controller-runtime/pkg/client/fake"
	"sigs.k8s.io/controller-runtime/pkg/client/interceptor"
	ctrllog "sigs.k8s.io/controller-runtime/pkg/log"

	kaifake "github.com/NVIDIA/KAI-scheduler/pkg/apis/client/clientset/versioned/fake"
	kaischeme "github.com/NVIDIA/KAI-scheduler/pkg/apis/client/clientset/versioned/scheme"
	schedulingv1alpha2 "github.com/NVIDIA/KAI-scheduler/pkg/apis/scheduling/v1alpha2"
	schedulingv2 "github.com/NVIDIA/KAI-scheduler/pkg/apis/scheduling/v2"
	schedulingv2alpha2 "github.com/NVIDIA/KAI-scheduler/pkg/apis/scheduling/v2alpha2"
	"github.com/NVIDIA/KAI-scheduler/pkg/binder/binding"
	"github.com/NVIDIA/KAI-scheduler/pkg/binder/controllers"
	commonconsts "github.com/NVIDIA/KAI-scheduler/pkg/common/constants"
	"github.com/NVIDIA/KAI-scheduler/pkg/common/resources"
	"github.com/NVIDIA/KAI-scheduler/pkg/scheduler/actions"
	schedcache "github.com/NVIDIA/KAI-scheduler/pkg/scheduler/cache"
	"github.com/NVIDIA/KAI-scheduler/pkg/scheduler/conf"
	"github.com/NVIDIA/KAI-scheduler/pkg/scheduler/conf_util"
	"github.com/NVIDIA/KAI-scheduler/pkg/scheduler/framework"
	schedlog "github.com/NVIDIA/KAI-scheduler/pkg/scheduler/log"
	"github.com/NVIDIA/KAI-scheduler/pkg/scheduler/plugins"

	"verif/harness/internal/tracefmt"
)

const (
	ns            = "ns"
	nodeName      = "n1"
	schedulerName = "kai-scheduler"
	queueName     = "q"
	capCentiGPU   = 100
	nodeMilliCPU  = 8000
	podMilliCPU   = 1000
	syncTimeout   = 60 * time.Second // failure detector only
	memSlots      = 8                // slots of the per-group memory vector in the snapshot projection
)

type step struct {
	N   string `json:"n"`
	P   string `json:"p"`
	Out string `json:"out"`
}

type scenario struct {
	ID      string         `json:"id"`
	Lim     int            `json:"lim"`
	Gpus    int            `json:"gpus"` // GPU devices of the node
	Req     map[string]int `json:"req"`  // centi-GPU per device: 100 = one whole GPU, < 100 = fraction
	Nd      map[string]int `json:"nd"`   // devices of a fractional pod (2 = gpu-fraction-num-devices: 2)
	Cl      map[string]int `json:"cl"`   // 1 = the pod asks for its GPU through a DRA resource claim (req = 100); see claim.go
	Present []string       `json:"present"`
	Steps   []step         `json:"steps"`
}

func infra(format string, a ...any) {
	fmt.Fprintf(os.Stderr, "handoff: INFRA: "+format+"\n", a...)
	os.Exit(2)
}

// ---------------------------------------------------------------------------------------------------
// the world: two fake stores, the real scheduler cache, the real reconciler
// ---------------------------------------------------------------------------------------------------
type world struct {
	sc      scenario
	pods    []string // all pod names of the scenario (sorted), present or not
	kube    *kubefake.Clientset
	kai     *kaifake.Clientset
	cache   schedcache.Cache
	stopCh  chan struct{}
	schedCf *conf.SchedulerConfiguration
	params  *conf.SchedulerParams

	bclient    client.WithWatch
	scheme     *k8sruntime.Scheme
	reconciler *controllers.BindRequestReconciler

	// fault injection for the reconcile in flight
	failBind        bool
	panicBind       bool // the call of the binding sub-resource panics (inside binder.Bind)
	failStatusPatch bool
	failReserveAt   int  // the n-th ReserveGpuDevice call of the reconcile fails (0 = none)
	failRollback    bool // RemovePodGpuGroupsConnection fails: labels written so far stay on the pod
	crashAfterLabel bool // the binder dies right after the next label patch that adds a group
	dead            bool // ... from then on nothing reaches the store
	reserveCalls    int
	failClaimWrite  bool // the API server refuses the status update of a ResourceClaim (claim.go)
	rv              int  // resourceVersion counter of the DRA objects (claim.go)
	// observations of the reconcile in flight
	bindCalled, bindFailed, getFailed bool
	claimWriteFailed                  bool

	// fault injection for the scheduler cycle in flight: DELETE of the BindRequest of these pods is refused
	refuseDelete   bool
	refuseDeleteOf string // "" = every BindRequest of the namespace
	refusedDeletes atomic.Int32

	// harness-side bookkeeping (ghost state of the trace)
	createCalls     int
	lastUID         map[string]types.UID
	created         map[string]int  // BindRequest incarnations per pod (distinct UIDs observed in the store)
	q               map[string]bool // controller-runtime work queue (see spec/Handoff.tla)
	att             map[string]int  // binding sub-resource calls of the current incarnation
	fl              map[string]int  // failed reconciles of the current incarnation
	restarts, flips int
	leaks           int
	refusals        int // scheduler cycles with refused DELETEs
	panics          int // bind attempts that panicked
	draining        bool
	barriers        int
	slotOf          map[string]int // GPU group id -> abstract slot (smallest slot not referenced in the store when first seen)

	watchMu  sync.Mutex
	watching map[string]bool
}

func int32p(v int32) *int32 { return &v }

func newWorld(sc scenario, pods []string) *world {
	w := &world{sc: sc, pods: pods, watching: map[string]bool{}, slotOf: map[string]int{}, lastUID: map[string]types.UID{}, created: map[string]int{}, q: map[string]bool{}, att: map[string]int{}, fl: map[string]int{}}
	w.kube = kubefake.NewSimpleClientset()
	w.kai = kaifake.NewSimpleClientset()
	ctx := context.Background()
	// The fake object tracker does not replay changes made between an informer's List and its Watch: record when
	// each watch is registered, so that no step runs before the scheduler's informers really follow the store.
	trackWatches := func(f *k8stesting.Fake, tracker k8stesting.ObjectTracker) {
		f.PrependWatchReactor("*", func(a k8stesting.Action) (bool, watch.Interface, error) {
			var opts metav1.ListOptions
			if wa, ok := a.(k8stesting.WatchActionImpl); ok {
				opts = wa.ListOptions
			}
			wi, err := tracker.Watch(a.GetResource(), a.GetNamespace(), opts)
			if err != nil {
				return false, nil, err
			}
			w.watchMu.Lock()
			w.watching[a.GetResource().Resource] = true
			w.watchMu.Unlock()
			return true, wi, nil
		})
	}
	trackWatches(&w.kube.Fake, w.kube.Tracker())
	trackWatches(&w.kai.Fake, w.kai.Tracker())

	// the BindRequest is created by the real cache.Bind; spec.backoffLimit is set on admission (the scheduler
	// leaves it nil), the store assigns the UID.
	w.kai.PrependReactor("create", "bindrequests", func(a k8stesting.Action) (bool, k8sruntime.Object, error) {
		br := a.(k8stesting.CreateAction).GetObject().(*schedulingv1alpha2.BindRequest)
		w.createCalls++ // attempts; an incarnation is counted when a new UID is observed in the store (observeBrs)
		br.UID = types.UID(fmt.Sprintf("br-%s-%d", br.Spec.PodName, w.createCalls))
		if w.sc.Lim >= 0 {
			br.Spec.BackoffLimit = int32p(int32(w.sc.Lim))
		}
		return false, nil, nil
	})

	// the API server refuses the DELETE of (stale) BindRequests while the flag of the SchedCycleRefused step is set
	// (cleanStaleBindRequest issues the DELETEs from goroutines; the flag is written before OpenSession is called)
	w.kai.PrependReactor("delete", "bindrequests", func(a k8stesting.Action) (bool, k8sruntime.Object, error) {
		da, ok := a.(k8stesting.DeleteAction)
		if !ok || !w.refuseDelete || a.GetNamespace() != ns || (w.refuseDeleteOf != "" && w.refuseDeleteOf != da.GetName()) {
			return false, nil, nil
		}
		w.refusedDeletes.Add(1)
		return true, nil, apierrors.NewServiceUnavailable("verif: the API server refuses the DELETE of the BindRequest")
	})

	mustCreate := func(err error) {
		if err != nil {
			infra("create object: %v", err)
		}
	}
	if sc.hasClaims() {
		w.setupDRA(ctx)
	}
	_, err := w.kube.CoreV1().Nodes().Create(ctx, w.nodeObject(), metav1.CreateOptions{})
	mustCreate(err)
	unlimited := schedulingv2.QueueResource{Quota: -1, Limit: -1, OverQuotaWeight: 1}
	for _, q := range []struct{ name, parent string }{{"root", ""}, {queueName, "root"}} {
		_, err = w.kai.SchedulingV2().Queues("").Create(ctx, &schedulingv2.Queue{
			ObjectMeta: metav1.ObjectMeta{Name: q.name},
			Spec: schedulingv2.QueueSpec{ParentQueue: q.parent,
				Resources: &schedulingv2.QueueResources{GPU: unlimited, CPU: unlimited, Memory: unlimited}},
		}, metav1.CreateOptions{})
		mustCreate(err)
	}
	present := map[string]bool{}
	for _, p := range sc.Present {
		present[p] = true
	}
	for i, p := range pods {
		if !present[p] {
			continue
		}
		pg := &schedulingv2alpha2.PodGroup{
			ObjectMeta: metav1.ObjectMeta{Name: "pg-" + p, Namespace: ns, UID: types.UID("pg-uid-" + p),
				Labels:            map[string]string{commonconsts.DefaultQueueLabel: queueName},
				CreationTimestamp: metav1.NewTime(time.Date(2024, 1, 1, 0, 0, i, 0, time.UTC))},
			Spec: schedulingv2alpha2.PodGroupSpec{Queue: queueName, MinMember: 1},
		}
		_, err = w.kai.SchedulingV2alpha2().PodGroups(ns).Create(ctx, pg, metav1.CreateOptions{})
		mustCreate(err)
		if w.isClaim(p) {
			_, err = w.kube.ResourceV1().ResourceClaims(ns).Create(ctx, w.claimObject(p, i), metav1.CreateOptions{})
			mustCreate(err)
		}
		_, err = w.kube.CoreV1().Pods(ns).Create(ctx, podObject(p, sc.Req[p], sc.Nd[p], sc.Cl[p], i), metav1.CreateOptions{})
		mustCreate(err)
	}

	partition := &conf.SchedulingNodePoolParams{}
	w.params = &conf.SchedulerParams{SchedulerName: schedulerName, PartitionParams: partition, NumOfStatusRecordingWorkers: 2,
		QueueLabelKey: commonconsts.DefaultQueueLabel} // only read by the dynamicresources plugin
	w.schedCf, err = conf_util.GetDefaultSchedulerConf()
	if err != nil {
		infra("default scheduler conf: %v", err)
	}
	w.cache = schedcache.New(&schedcache.SchedulerCacheParams{
		KubeClient: w.kube, KAISchedulerClient: w.kai, SchedulerName: schedulerName, NodePoolParams: partition,
		NumOfStatusRecordingWorkers: 2, DiscoveryClient: w.kube.Discovery(),
	})
	if w.cache == nil || reflect.ValueOf(w.cache).IsNil() {
		infra("cache.New returned nil")
	}
	w.stopCh = make(chan struct{})
	w.cache.Run(w.stopCh)
	// WaitForCacheSync polls every 100ms after an immediate first check: give the (in-memory) initial lists a
	// moment so that the first check usually succeeds. Correctness does not depend on this (waitInformers).
	time.Sleep(4 * time.Millisecond)
	w.cache.WaitForCacheSync(w.stopCh)
	deadline := time.Now().Add(syncTimeout)
	for {
		w.watchMu.Lock()
		up := true
		for _, r := range []string{"pods", "nodes", "bindrequests", "podgroups", "queues"} {
			up = up && w.watching[r]
		}
		if sc.hasClaims() {
			for _, r := range []string{"resourceclaims", "resourceslices", "deviceclasses"} {
				up = up && w.watching[r]
			}
		}
		w.watchMu.Unlock()
		if up {
			break
		}
		if time.Now().After(deadline) {
			infra("the scheduler's informers did not start watching within %v", syncTimeout)
		}
		time.Sleep(200 * time.Microsecond)
	}
	if sc.hasClaims() {
		w.waitDRAStart()
	}

	// binder side
	w.scheme = k8sruntime.NewScheme()
	if err := corev1.AddToScheme(w.scheme); err != nil {
		infra("scheme: %v", err)
	}
	if err := kaischeme.AddToScheme(w.scheme); err != nil {
		infra("scheme: %v", err)
	}
	w.bclient = ctrlfake.NewClientBuilder().WithScheme(w.scheme).
		WithIndex(&corev1.Pod{}, "spec.nodeName", func(o client.Object) []string { return []string{o.(*corev1.Pod).Spec.NodeName} }).
		WithStatusSubresource(&schedulingv1alpha2.BindRequest{}).
		WithInterceptorFuncs(interceptor.Funcs{
			Get: func(ctx context.Context, c client.WithWatch, key client.ObjectKey, obj client.Object, opts ...client.GetOption) error {
				if w.dead {
					return errDead
				}
				err := c.Get(ctx, key, obj, opts...)
				if err != nil {
					switch obj.(type) {
					case *corev1.Pod, *corev1.Node:
						w.getFailed = true
					}
				}
				return err
			},
			Patch: func(ctx context.Context, c client.WithWatch, obj client.Object, patch client.Patch, opts ...client.PatchOption) error {
				if w.dead {
					return errDead
				}
				return c.Patch(ctx, obj, patch, opts...)
			},
			Update: func(ctx context.Context, c client.WithWatch, obj client.Object, opts ...client.UpdateOption) error {
				if w.dead {
					return errDead
				}
				return c.Update(ctx, obj, opts...)
			},
			Delete: func(ctx context.Context, c client.WithWatch, obj client.Object, opts ...client.DeleteOption) error {
				if w.dead {
					return errDead
				}
				return c.Delete(ctx, obj, opts...)
			},
			SubResourceCreate: func(ctx context.Context, c client.Client, sub string, obj client.Object, subObj client.Object, opts ...client.SubResourceCreateOption) error {
				if w.dead {
					return errDead
				}
				if sub != "binding" {
					return c.SubResource(sub).Create(ctx, obj, subObj, opts...)
				}
				w.bindCalled = true
				if w.panicBind {
					w.bindFailed = true
					panic("verif: injected panic in the call of the binding sub-resource")
				}
				if w.failBind {
					w.bindFailed = true
					return apierrors.NewServiceUnavailable("verif: injected failure of the binding sub-resource")
				}
				// what the API server does on pods/binding
				pod := &corev1.Pod{}
				if err := c.Get(ctx, client.ObjectKeyFromObject(obj), pod); err != nil {
					return err
				}
				if pod.Spec.NodeName != "" {
					return apierrors.NewConflict(corev1.Resource("pods"), pod.Name, errors.New("pod is already assigned to a node"))
				}
				pod.Spec.NodeName = subObj.(*corev1.Binding).Target.Name
				return c.Update(ctx, pod)
			},
			SubResourcePatch: func(ctx context.Context, c client.Client, sub string, obj client.Object, patch client.Patch, opts ...client.SubResourcePatchOption) error {
				if w.dead {
					return errDead
				}
				if _, isBr := obj.(*schedulingv1alpha2.BindRequest); isBr && sub == "status" && w.failStatusPatch {
					return apierrors.NewServiceUnavailable("verif: injected failure of the BindRequest status patch")
				}
				return c.SubResource(sub).Patch(ctx, obj, patch, opts...)
			},
		}).Build()
	w.newReconciler()
	return w
}

func (w *world) newReconciler() {
	binder := binding.NewBinder(w.bclient, noReservation{w}, w.binderPluginsFor())
	w.reconciler = controllers.NewBindRequestReconciler(w.bclient, w.scheme, record.NewFakeRecorder(10000),
		&controllers.ReconcilerParams{MaxConcurrentReconciles: 1, RateLimiterBaseDelaySeconds: 1, RateLimiterMaxDelaySeconds: 60},
		binder, noReservation{w})
}

func (w *world) close() { close(w.stopCh) }

func (w *world) gpus() int {
	if w.sc.Gpus < 1 {
		return 1
	}
	return w.sc.Gpus
}

func (w *world) nodeObject() *corev1.Node {
	rl := corev1.ResourceList{
		corev1.ResourceCPU:    *resource.NewMilliQuantity(nodeMilliCPU, resource.DecimalSI),
		corev1.ResourceMemory: resource.MustParse("16Gi"),
		corev1.ResourcePods:   resource.MustParse("110"),
		"nvidia.com/gpu":      *resource.NewQuantity(int64(w.gpus()), resource.DecimalSI),
	}
	if w.sc.hasClaims() { // the GPUs of a DRA node are the devices of its ResourceSlice
		delete(rl, "nvidia.com/gpu")
	}
	return &corev1.Node{
		// a re-created node gets a new UID: waitInformers compares objects, an identical re-creation would be
		// indistinguishable from the not-yet-processed deletion of its predecessor
		ObjectMeta: metav1.ObjectMeta{Name: nodeName, UID: types.UID(fmt.Sprintf("node-uid-%d", w.flips)), Labels: map[string]string{"nvidia.com/gpu.count": fmt.Sprintf("%d", w.gpus())}},
		Status: corev1.NodeStatus{Capacity: rl, Allocatable: rl.DeepCopy(),
			Conditions: []corev1.NodeCondition{{Type: corev1.NodeReady, Status: corev1.ConditionTrue}}},
	}
}

func podObject(name string, req int, nd int, cl int, idx int) *corev1.Pod {
	requests := corev1.ResourceList{corev1.ResourceCPU: *resource.NewMilliQuantity(podMilliCPU, resource.DecimalSI)}
	ann := map[string]string{commonconsts.PodGroupAnnotationForPod: "pg-" + name}
	if cl > 0 {
		// the GPU comes through the resource claim
	} else if req >= 100 {
		requests["nvidia.com/gpu"] = *resource.NewQuantity(int64(req/100), resource.DecimalSI)
	} else {
		ann[commonconsts.GpuFraction] = fmt.Sprintf("%.2f", float64(req)/100)
		if nd > 1 {
			ann[commonconsts.GpuFractionsNumDevices] = fmt.Sprintf("%d", nd)
		}
	}
	pod := &corev1.Pod{
		ObjectMeta: metav1.ObjectMeta{Name: name, Namespace: ns, UID: types.UID("pod-uid-" + name), Annotations: ann,
			CreationTimestamp: metav1.NewTime(time.Date(2024, 1, 1, 0, 0, idx, 0, time.UTC))},
		Spec: corev1.PodSpec{SchedulerName: schedulerName,
			Containers: []corev1.Container{{Name: "c", Image: "img", Resources: corev1.ResourceRequirements{Requests: requests, Limits: requests.DeepCopy()}}}},
		Status: corev1.PodStatus{Phase: corev1.PodPending},
	}
	if cl > 0 {
		claimPodSpec(pod, name)
	}
	return pod
}

// noReservation stands in for the GPU reservation service (reservation pods are the subject of C11/C17).
// Like the real service it labels a fractional pod with its GPU groups ONE GROUP PER CALL (runai-gpu-group for
// a single-device fraction, runai-gpu-group/<group> for a multi-device fraction); the label patch drops group
// labels that the current BindRequest does not select. Faults: the n-th reservation of a reconcile fails, the
// rollback (label removal) fails, the binder dies right after a label patch.
type noReservation struct{ w *world }

var errInjected = errors.New("verif: injected fault")
var errDead = errors.New("verif: the binder process is dead")

func (noReservation) Sync(context.Context) error                    { return nil }
func (noReservation) SyncForNode(context.Context, string) error     { return nil }
func (noReservation) SyncForGpuGroup(context.Context, string) error { return nil }

func groupLabelKeys(labels map[string]string) []string {
	var keys []string
	for k := range labels {
		if k == commonconsts.GPUGroup || strings.HasPrefix(k, commonconsts.MultiGpuGroupLabelPrefix) {
			keys = append(keys, k)
		}
	}
	return keys
}

func (r noReservation) ReserveGpuDevice(ctx context.Context, pod *corev1.Pod, _ string, gpuGroup string) (string, error) {
	w := r.w
	w.reserveCalls++
	if w.failReserveAt > 0 && w.reserveCalls == w.failReserveAt {
		return "-1", fmt.Errorf("reserving GPU group %s: %w", gpuGroup, errInjected)
	}
	selected := map[string]bool{}
	br := &schedulingv1alpha2.BindRequest{}
	if err := w.bclient.Get(ctx, client.ObjectKeyFromObject(pod), br); err == nil {
		for _, g := range br.Spec.SelectedGPUGroups {
			selected[g] = true
		}
	}
	orig := pod.DeepCopy()
	if pod.Labels == nil {
		pod.Labels = map[string]string{}
	}
	had := false
	for _, k := range groupLabelKeys(pod.Labels) {
		if pod.Labels[k] == gpuGroup {
			had = true
		}
		if !selected[pod.Labels[k]] {
			delete(pod.Labels, k)
		}
	}
	multi, err := resources.IsMultiFraction(pod)
	if err != nil {
		return "-1", err
	}
	if multi {
		k, v := resources.GetMultiFractionGpuGroupLabel(gpuGroup)
		pod.Labels[k] = v
	} else {
		pod.Labels[commonconsts.GPUGroup] = gpuGroup
	}
	if err := w.bclient.Patch(ctx, pod, client.MergeFrom(orig)); err != nil {
		return "-1", err
	}
	if w.crashAfterLabel && !had {
		w.dead = true
	}
	return "0", nil
}

func (r noReservation) RemovePodGpuGroupsConnection(ctx context.Context, pod *corev1.Pod) error {
	if r.w.failRollback {
		return fmt.Errorf("removing GPU group labels: %w", errInjected)
	}
	cur := &corev1.Pod{}
	if err := r.w.bclient.Get(ctx, client.ObjectKeyFromObject(pod), cur); err != nil {
		return client.IgnoreNotFound(err)
	}
	keys := groupLabelKeys(cur.Labels)
	if len(keys) == 0 {
		return nil
	}
	orig := cur.DeepCopy()
	for _, k := range keys {
		delete(cur.Labels, k)
	}
	return r.w.bclient.Patch(ctx, cur, client.MergeFrom(orig))
}

// ---------------------------------------------------------------------------------------------------
// store access (scheduler side = source of truth between steps)
// ---------------------------------------------------------------------------------------------------
func (w *world) getPod(p string) *corev1.Pod {
	pod, err := w.kube.CoreV1().Pods(ns).Get(context.Background(), p, metav1.GetOptions{})
	if err != nil {
		return nil
	}
	return pod
}

func (w *world) getBr(p string) *schedulingv1alpha2.BindRequest {
	br, err := w.kai.SchedulingV1alpha2().BindRequests(ns).Get(context.Background(), p, metav1.GetOptions{})
	if err != nil {
		return nil
	}
	return br
}

func (w *world) nodeUp() bool {
	_, err := w.kube.CoreV1().Nodes().Get(context.Background(), nodeName, metav1.GetOptions{})
	return err == nil
}

// barrier waits until the scheduler's informers have processed every event emitted so far. Comparing the
// listers with the store is not enough: a change that is undone before the informer has seen it (node added
// and deleted again, or deleted and re-created) leaves lister == store while events are still in flight, and
// the snapshot taken next may see the intermediate state. Each watch stream is FIFO, so a marker object that
// is created after all real changes - and observed in the lister - proves that everything before it has been
// processed; it is deleted again (and the deletion observed) before the cycle starts, so no snapshot ever
// contains it.
func (w *world) barrier() {
	if os.Getenv("VERIF_HANDOFF_NO_BARRIER") != "" { // self-test of the harness only
		return
	}
	ctx := context.Background()
	dl := w.cache.GetDataLister()
	w.barriers++
	name := fmt.Sprintf("verif-barrier-%d", w.barriers)
	const bns = "verif-barrier"
	if _, err := w.kube.CoreV1().Nodes().Create(ctx, &corev1.Node{ObjectMeta: metav1.ObjectMeta{Name: name}}, metav1.CreateOptions{}); err != nil {
		infra("barrier node: %v", err)
	}
	if _, err := w.kube.CoreV1().Pods(bns).Create(ctx, &corev1.Pod{ObjectMeta: metav1.ObjectMeta{Name: name, Namespace: bns},
		Spec: corev1.PodSpec{SchedulerName: "verif-barrier"}, Status: corev1.PodStatus{Phase: corev1.PodSucceeded}}, metav1.CreateOptions{}); err != nil {
		infra("barrier pod: %v", err)
	}
	if _, err := w.kai.SchedulingV1alpha2().BindRequests(bns).Create(ctx, &schedulingv1alpha2.BindRequest{
		ObjectMeta: metav1.ObjectMeta{Name: name, Namespace: bns}, Spec: schedulingv1alpha2.BindRequestSpec{PodName: name, SelectedNode: name}}, metav1.CreateOptions{}); err != nil {
		infra("barrier bindrequest: %v", err)
	}
	seen := func() (n, p, b bool) {
		nodes, _ := dl.ListNodes()
		for _, o := range nodes {
			n = n || o.Name == name
		}
		pods, _ := dl.ListPods()
		for _, o := range pods {
			p = p || (o.Namespace == bns && o.Name == name)
		}
		brs, _ := dl.ListBindRequests()
		for _, o := range brs {
			b = b || (o.Namespace == bns && o.Name == name)
		}
		return
	}
	wait := func(want bool, what string) {
		deadline := time.Now().Add(syncTimeout)
		for i := 0; ; i++ {
			n, p, b := seen()
			if n == want && p == want && b == want {
				return
			}
			if time.Now().After(deadline) {
				infra("scheduler informers did not process the barrier (%s) within %v (scenario %s)", what, syncTimeout, w.sc.ID)
			}
			if i < 200 {
				runtime.Gosched()
			} else {
				time.Sleep(100 * time.Microsecond)
			}
		}
	}
	wait(true, "create")
	if w.sc.hasClaims() {
		w.barrierDRA(name)
	}
	if err := w.kube.CoreV1().Nodes().Delete(ctx, name, metav1.DeleteOptions{}); err != nil {
		infra("barrier node delete: %v", err)
	}
	if err := w.kube.CoreV1().Pods(bns).Delete(ctx, name, metav1.DeleteOptions{}); err != nil {
		infra("barrier pod delete: %v", err)
	}
	if err := w.kai.SchedulingV1alpha2().BindRequests(bns).Delete(ctx, name, metav1.DeleteOptions{}); err != nil {
		infra("barrier bindrequest delete: %v", err)
	}
	wait(false, "delete")
}

// waitInformers blocks until the scheduler's informer caches equal the store (the informers are asynchronous).
func (w *world) waitInformers() {
	w.barrier()
	if os.Getenv("VERIF_HANDOFF_NO_WAIT") != "" { // self-test of the harness only
		return
	}
	ctx := context.Background()
	dl := w.cache.GetDataLister()
	deadline := time.Now().Add(syncTimeout)
	for {
		ok := true
		pods, _ := w.kube.CoreV1().Pods(ns).List(ctx, metav1.ListOptions{})
		lpods, err := dl.ListPods()
		ok = ok && err == nil && sameObjects(len(pods.Items), func(i int) (string, any) { return pods.Items[i].Name, &pods.Items[i] },
			len(lpods), func(i int) (string, any) { return lpods[i].Name, lpods[i] })
		nodes, _ := w.kube.CoreV1().Nodes().List(ctx, metav1.ListOptions{})
		lnodes, err := dl.ListNodes()
		ok = ok && err == nil && sameObjects(len(nodes.Items), func(i int) (string, any) { return nodes.Items[i].Name, &nodes.Items[i] },
			len(lnodes), func(i int) (string, any) { return lnodes[i].Name, lnodes[i] })
		brs, _ := w.kai.SchedulingV1alpha2().BindRequests(ns).List(ctx, metav1.ListOptions{})
		lbrs, err := dl.ListBindRequests()
		ok = ok && err == nil && sameObjects(len(brs.Items), func(i int) (string, any) { return brs.Items[i].Name, &brs.Items[i] },
			len(lbrs), func(i int) (string, any) { return lbrs[i].Name, lbrs[i] })
		if ok {
			return
		}
		if time.Now().After(deadline) {
			infra("scheduler informers did not catch up with the store within %v (scenario %s)", syncTimeout, w.sc.ID)
		}
		time.Sleep(200 * time.Microsecond)
	}
}

func sameObjects(n int, a func(int) (string, any), m int, b func(int) (string, any)) bool {
	if n != m {
		return false
	}
	byName := map[string]any{}
	for i := 0; i < n; i++ {
		k, v := a(i)
		byName[k] = v
	}
	for i := 0; i < m; i++ {
		k, v := b(i)
		o, found := byName[k]
		if !found || !reflect.DeepEqual(o, v) {
			return false
		}
	}
	return true
}

// ---------------------------------------------------------------------------------------------------
// hand-off synchronisation of the two stores
// ---------------------------------------------------------------------------------------------------
func (w *world) syncToBinder() {
	ctx := context.Background()
	replace := func(cur client.ObjectList, want []client.Object) {
		if err := w.bclient.List(ctx, cur); err != nil {
			infra("binder store list: %v", err)
		}
		have := map[string]client.Object{}
		items, _ := extractList(cur)
		for _, o := range items {
			have[o.GetNamespace()+"/"+o.GetName()] = o
		}
		for _, o := range want {
			key := o.GetNamespace() + "/" + o.GetName()
			if h, ok := have[key]; ok {
				delete(have, key)
				hc := h.DeepCopyObject().(client.Object)
				hc.SetResourceVersion("")
				oc := o.DeepCopyObject().(client.Object)
				oc.SetResourceVersion("")
				if reflect.DeepEqual(hc, oc) {
					continue
				}
				if err := w.bclient.Delete(ctx, h); err != nil {
					infra("binder store delete: %v", err)
				}
			}
			o.SetResourceVersion("")
			if err := w.bclient.Create(ctx, o); err != nil {
				infra("binder store create %s: %v", key, err)
			}
		}
		for _, h := range have {
			if err := w.bclient.Delete(ctx, h); err != nil {
				infra("binder store delete: %v", err)
			}
		}
	}
	nodes, _ := w.kube.CoreV1().Nodes().List(ctx, metav1.ListOptions{})
	var want []client.Object
	for i := range nodes.Items {
		want = append(want, nodes.Items[i].DeepCopy())
	}
	replace(&corev1.NodeList{}, want)
	pods, _ := w.kube.CoreV1().Pods(ns).List(ctx, metav1.ListOptions{})
	want = nil
	for i := range pods.Items {
		want = append(want, pods.Items[i].DeepCopy())
	}
	replace(&corev1.PodList{}, want)
	brs, _ := w.kai.SchedulingV1alpha2().BindRequests(ns).List(ctx, metav1.ListOptions{})
	want = nil
	for i := range brs.Items {
		want = append(want, brs.Items[i].DeepCopy())
	}
	replace(&schedulingv1alpha2.BindRequestList{}, want)
}

func extractList(l client.ObjectList) ([]client.Object, error) {
	var out []client.Object
	switch t := l.(type) {
	case *corev1.NodeList:
		for i := range t.Items {
			out = append(out, &t.Items[i])
		}
	case *corev1.PodList:
		for i := range t.Items {
			out = append(out, &t.Items[i])
		}
	case *schedulingv1alpha2.BindRequestList:
		for i := range t.Items {
			out = append(out, &t.Items[i])
		}
	}
	return out, nil
}

// syncFromBinder copies what the binder changed (pods, BindRequests) back into the scheduler's store.
func (w *world) syncFromBinder() {
	ctx := context.Background()
	pods := &corev1.PodList{}
	if err := w.bclient.List(ctx, pods, client.InNamespace(ns)); err != nil {
		infra("binder store list pods: %v", err)
	}
	for i := range pods.Items {
		bp := pods.Items[i].DeepCopy()
		ap := w.getPod(bp.Name)
		if ap == nil {
			continue
		}
		bp.ResourceVersion = ap.ResourceVersion
		if reflect.DeepEqual(ap, bp) {
			continue
		}
		if _, err := w.kube.CoreV1().Pods(ns).Update(ctx, bp, metav1.UpdateOptions{}); err != nil {
			infra("scheduler store update pod: %v", err)
		}
	}
	brs := &schedulingv1alpha2.BindRequestList{}
	if err := w.bclient.List(ctx, brs, client.InNamespace(ns)); err != nil {
		infra("binder store list bindrequests: %v", err)
	}
	seen := map[string]bool{}
	for i := range brs.Items {
		bb := brs.Items[i].DeepCopy()
		seen[bb.Name] = true
		ab := w.getBr(bb.Name)
		if ab == nil {
			continue
		}
		bb.ResourceVersion = ab.ResourceVersion
		if reflect.DeepEqual(ab, bb) {
			continue
		}
		if _, err := w.kai.SchedulingV1alpha2().BindRequests(ns).Update(ctx, bb, metav1.UpdateOptions{}); err != nil {
			infra("scheduler store update bindrequest: %v", err)
		}
	}
	abrs, _ := w.kai.SchedulingV1alpha2().BindRequests(ns).List(ctx, metav1.ListOptions{})
	for i := range abrs.Items {
		if !seen[abrs.Items[i].Name] { // deleted by the binder
			_ = w.kai.SchedulingV1alpha2().BindRequests(ns).Delete(ctx, abrs.Items[i].Name, metav1.DeleteOptions{})
		}
	}
}

// ---------------------------------------------------------------------------------------------------
// projections
// ---------------------------------------------------------------------------------------------------
func b2i(b bool) int {
	if b {
		return 1
	}
	return 0
}

// refreshSlots maintains the GPU group id -> slot map: ids no longer referenced by a BindRequest or a pod label
// are forgotten, a new id gets the smallest free slot (pods by name, selected groups in list order, then labels).
func (w *world) refreshSlots() {
	var order []string
	seen := map[string]bool{}
	add := func(g string) {
		if !seen[g] {
			seen[g] = true
			order = append(order, g)
		}
	}
	for _, p := range w.pods {
		if br := w.getBr(p); br != nil {
			for _, g := range br.Spec.SelectedGPUGroups {
				add(g)
			}
		}
		if pod := w.getPod(p); pod != nil {
			gs := resources.GetGpuGroups(pod)
			sort.Strings(gs)
			for _, g := range gs {
				add(g)
			}
		}
	}
	used := map[int]bool{}
	for g, sl := range w.slotOf {
		if !seen[g] {
			delete(w.slotOf, g)
		} else {
			used[sl] = true
		}
	}
	for _, g := range order {
		if _, ok := w.slotOf[g]; ok {
			continue
		}
		sl := 1
		for used[sl] {
			sl++
		}
		w.slotOf[g], used[sl] = sl, true
	}
}

func (w *world) slots(groups []string) []int {
	out := []int{}
	for _, g := range groups {
		if sl, ok := w.slotOf[g]; ok {
			out = append(out, sl)
		} else {
			out = append(out, 99) // a group id the store does not know
		}
	}
	sort.Ints(out)
	return out
}

func (w *world) projectStore() map[string]any {
	w.refreshSlots()
	pods := map[string]any{}
	for _, p := range w.pods {
		pod := w.getPod(p)
		br := w.getBr(p)
		if br != nil && br.UID != w.lastUID[p] {
			w.lastUID[p] = br.UID
			w.created[p]++
		}
		e := map[string]any{"alive": b2i(pod != nil), "bound": 0, "node": "", "ex": b2i(br != nil), "ph": "", "fa": 0, "lim": -1,
			"sel": "", "gen": w.created[p] % 2, "q": b2i(w.q[p]), "att": w.att[p], "fl": w.fl[p], "dev": []int{}, "lab": []int{}, "inf": []int{}}
		if pod != nil {
			e["bound"] = b2i(pod.Spec.NodeName != "")
			e["node"] = pod.Spec.NodeName
			e["lab"] = w.slots(resources.GetGpuGroups(pod))
		}
		if br != nil {
			ph := br.Status.Phase
			if ph == schedulingv1alpha2.BindRequestPhasePending {
				ph = ""
			}
			e["ph"] = ph
			e["fa"] = int(br.Status.FailedAttempts)
			if br.Spec.BackoffLimit != nil {
				e["lim"] = int(*br.Spec.BackoffLimit)
			}
			e["sel"] = br.Spec.SelectedNode
			e["dev"] = w.slots(br.Spec.SelectedGPUGroups)
		}
		if w.isClaim(p) { // dev = the devices the request hands to the claim, lab = the devices the claim holds in the API
			cdev := []int{}
			if br != nil {
				for _, ca := range br.Spec.ResourceClaimAllocations {
					if ca.Name != podClaimRef {
						cdev = append(cdev, 99)
					}
					cdev = append(cdev, devSlots(ca.Allocation)...)
				}
				sort.Ints(cdev)
			}
			e["dev"] = cdev
			e["lab"] = []int{}
			if c := w.getClaim(p); c != nil {
				e["lab"] = devSlots(c.Status.Allocation)
			}
			e["inf"] = w.inflightDevices(p) // memory of the scheduler process, not of the store
		}
		pods[p] = e
	}
	return map[string]any{"up": b2i(w.nodeUp()), "flips": w.flips, "restarts": w.restarts, "leaks": w.leaks, "refusals": w.refusals, "panics": w.panics,
		"drain": b2i(w.draining), "pods": pods}
}

func noSnap(pods []string) map[string]any {
	st, on, grp, pcl := map[string]any{}, map[string]any{}, map[string]any{}, map[string]any{}
	for _, p := range pods {
		st[p], on[p], grp[p], pcl[p] = "", "", []int{}, []int{}
	}
	return map[string]any{"st": st, "on": on, "grp": grp, "pcl": pcl, "used": []int{}, "mem": make([]int, memSlots), "whole": 0, "idle": 0, "cpu": 0, "node": 0, "taken": 0}
}

var noRec = map[string]any{"ran": 0, "err": 0, "rq": 0, "patched": 0, "bind": 0, "msg": ""}

func (w *world) projectSnapshot(ssn *framework.Session) map[string]any {
	out := noSnap(w.pods)
	out["taken"] = 1
	st, on, grp, pcl := out["st"].(map[string]any), out["on"].(map[string]any), out["grp"].(map[string]any), out["pcl"].(map[string]any)
	if w.sc.hasClaims() {
		out["used"] = w.usedDevices(ssn)
	}
	for _, p := range w.pods {
		st[p] = "None"
	}
	for _, pg := range ssn.ClusterInfo.PodGroupInfos {
		for _, pi := range pg.GetAllPodsMap() {
			if _, known := st[pi.Name]; !known {
				continue
			}
			st[pi.Name] = pi.Status.String()
			on[pi.Name] = pi.NodeName
			grp[pi.Name] = w.slots(pi.GPUGroups)
			cd := []int{}
			for ref, ca := range pi.ResourceClaimInfo {
				if ref != podClaimRef || ca == nil {
					cd = append(cd, 99)
					continue
				}
				cd = append(cd, devSlots(ca.Allocation)...)
			}
			sort.Ints(cd)
			pcl[pi.Name] = cd
		}
	}
	if ni, found := ssn.ClusterInfo.Nodes[nodeName]; found {
		idle, _ := ni.GetSumOfIdleGPUs()
		out["idle"] = int(math.Round(idle * 100))
		out["cpu"] = int(math.Round(ni.Idle.Cpu()))
		out["node"] = 1
		out["whole"] = int(math.Round(ni.Idle.GPUs()))
		mem := out["mem"].([]int)
		for g, used := range ni.UsedSharedGPUsMemory { // memory charged per GPU group, in percent of one device
			if used == 0 {
				continue
			}
			pct := int(math.Round(float64(used) * 100 / float64(ni.MemoryOfEveryGpuOnNode)))
			if sl, ok := w.slotOf[g]; ok && sl <= memSlots {
				mem[sl-1] += pct
			} else {
				mem[memSlots-1] += 1000000 + pct // a group the store does not know: can never match
			}
		}
	}
	return out
}

// ---------------------------------------------------------------------------------------------------
// steps
// ---------------------------------------------------------------------------------------------------
func (w *world) brNames() map[string]types.UID {
	out := map[string]types.UID{}
	for _, p := range w.pods {
		if br := w.getBr(p); br != nil {
			out[p] = br.UID
		}
	}
	return out
}

// schedCycle runs one cycle as scheduler.runOnce does. refuse = the API server refuses the DELETE of the BindRequest
// of pod refuseOf ("" = of every pod) during the cycle: cleanStaleBindRequest then fails, Snapshot returns its error,
// OpenSession fails and runOnce gives up ("will try again next cycle"): no snapshot is observed, nothing is allocated.
func (w *world) schedCycle(refuse bool, refuseOf string) map[string]any {
	w.waitInformers()
	before := w.brNames()
	w.refuseDelete, w.refuseDeleteOf = refuse, refuseOf
	w.refusedDeletes.Store(0)
	ssn, err := framework.OpenSession(w.cache, w.schedCf, w.params, "verif", &http.ServeMux{})
	w.refuseDelete, w.refuseDeleteOf = false, ""
	snap := noSnap(w.pods)
	switch {
	case err != nil && !(refuse && w.refusedDeletes.Load() > 0 && strings.Contains(err.Error(), "failed to delete stale bind request")):
		infra("OpenSession: %v", err)
	case err != nil: // runOnce: "Error while opening session, will try again next cycle"
	default:
		snap = w.projectSnapshot(ssn)
		acts, err := conf_util.GetActionsFromConfig(w.schedCf)
		if err != nil {
			infra("actions: %v", err)
		}
		for _, a := range acts {
			a.Execute(ssn)
		}
		framework.CloseSession(ssn)
	}
	if refuse {
		w.refusals++
	}
	after := w.brNames()
	for _, p := range w.pods {
		b, hadBefore := before[p]
		a, hasAfter := after[p]
		switch {
		case hasAfter && (!hadBefore || a != b): // new incarnation: create event
			w.q[p], w.att[p], w.fl[p] = true, 0, 0
		case hadBefore && !hasAfter:
			w.q[p], w.att[p], w.fl[p] = false, 0, 0
		}
	}
	return snap
}

// reconcile runs one real Reconcile of the BindRequest of p under the fault `mode`:
// ok | fail (binding sub-resource fails) | panic (the call of the binding sub-resource panics) | faillabel (2nd GPU group reservation fails, rollback fails) |
// statuslost (status patch fails) | crash (binder dies right after the next new label; restart).
func (w *world) reconcile(p string, mode string) map[string]any {
	w.syncToBinder()
	w.failBind, w.failStatusPatch, w.panicBind = mode == "fail", mode == "statuslost", mode == "panic"
	w.failReserveAt, w.failRollback, w.crashAfterLabel, w.dead, w.reserveCalls = 0, false, mode == "crash", false, 0
	if mode == "faillabel" {
		w.failReserveAt, w.failRollback = 2, true
	}
	w.failClaimWrite = mode == "failclaim"
	w.bindCalled, w.bindFailed, w.getFailed, w.claimWriteFailed = false, false, false, false
	rvBefore := ""
	cur := &schedulingv1alpha2.BindRequest{}
	key := types.NamespacedName{Namespace: ns, Name: p}
	existed := w.bclient.Get(context.Background(), key, cur) == nil
	if existed {
		rvBefore = cur.ResourceVersion
	}
	w.getFailed = false
	res, err := w.reconciler.Reconcile(ctrllog.IntoContext(context.Background(), ctrllog.Log), ctrl.Request{NamespacedName: key})
	getFailed, bindCalled, bindFailed := w.getFailed, w.bindCalled, w.bindFailed
	claimWriteFailed := w.claimWriteFailed
	w.failClaimWrite = false
	reserveFailed := w.failReserveAt > 0 && w.reserveCalls >= w.failReserveAt
	died := w.dead
	w.failBind, w.failStatusPatch, w.panicBind = false, false, false
	w.failReserveAt, w.failRollback, w.crashAfterLabel, w.dead = 0, false, false, false
	patched := false
	after := &schedulingv1alpha2.BindRequest{}
	if w.bclient.Get(context.Background(), key, after) == nil {
		patched = existed && after.ResourceVersion != rvBefore
	}
	w.syncFromBinder()
	if mode == "crash" { // whatever the dying process returned is lost; the restarted binder re-queues everything
		_ = died // no label written: the reconcile ended before reserving a group (the trace shows it: lab unchanged)
		w.newReconciler()
		w.restarts++
		for _, x := range w.pods {
			w.q[x] = w.getBr(x) != nil
		}
		return map[string]any{"ran": 1, "err": 0, "rq": 0, "patched": 0, "bind": 0, "msg": "crashed"}
	}
	if bindCalled {
		w.att[p]++
	}
	if bindFailed || getFailed || reserveFailed || claimWriteFailed {
		w.fl[p]++
	}
	if reserveFailed {
		w.leaks++
	}
	if mode == "panic" && bindFailed {
		w.panics++
		if w.sc.Req[p] < 100 { // no rollback after a recovered panic: the group labels stay (counted like a failed rollback)
			w.leaks++
		}
	}
	rq := 0
	if res.RequeueAfter > 0 {
		rq = int(res.RequeueAfter / time.Second)
	}
	w.q[p] = patched || err != nil || res.RequeueAfter > 0 || res.Requeue
	msg := ""
	if err != nil {
		msg = err.Error()
		if len(msg) > 160 {
			msg = msg[:160]
		}
	}
	return map[string]any{"ran": 1, "err": b2i(err != nil), "rq": rq, "patched": b2i(patched), "bind": b2i(bindCalled), "msg": msg}
}

// apply executes one step of the schedule; returns (snap, rec, skipped).
func (w *world) apply(s step) (map[string]any, map[string]any, int) {
	ctx := context.Background()
	snap, rec := noSnap(w.pods), noRec
	if !w.enabled(s, math.MaxInt32, math.MaxInt32) { // not enabled in the real state: skipped (rec.ran = 0)
		return snap, rec, 1
	}
	switch s.N {
	case "SchedCycle":
		snap = w.schedCycle(false, "")
	case "SchedCycleRefused":
		snap = w.schedCycle(true, s.P)
	case "BinderAttempt": // only queued keys are reconciled (controller-runtime work queue)
		mode := s.Out
		if mode == "" {
			mode = "ok"
		}
		rec = w.reconcile(s.P, mode)
	case "BindDoneStatusLost":
		rec = w.reconcile(s.P, "statuslost")
	case "BinderCrashAfterLabel":
		rec = w.reconcile(s.P, "crash")
	case "StartDrain": // resync of the binder's work queue; from here on no faults
		w.draining = true
		w.newReconciler()
		w.restarts++
		for _, p := range w.pods {
			w.q[p] = w.getBr(p) != nil
		}
	case "BinderRestart":
		w.newReconciler()
		w.restarts++
		for _, p := range w.pods {
			w.q[p] = w.getBr(p) != nil
		}
	case "NodeDeleted":
		if err := w.kube.CoreV1().Nodes().Delete(ctx, nodeName, metav1.DeleteOptions{}); err != nil {
			infra("delete node: %v", err)
		}
		if w.sc.hasClaims() { // the node's DRA driver is gone with it
			if err := w.kube.ResourceV1().ResourceSlices().Delete(ctx, w.sliceName(), metav1.DeleteOptions{}); err != nil {
				infra("delete slice: %v", err)
			}
		}
		w.flips++
	case "NodeAdded":
		if _, err := w.kube.CoreV1().Nodes().Create(ctx, w.nodeObject(), metav1.CreateOptions{}); err != nil {
			infra("create node: %v", err)
		}
		if w.sc.hasClaims() {
			if _, err := w.kube.ResourceV1().ResourceSlices().Create(ctx, w.sliceObject(), metav1.CreateOptions{}); err != nil {
				infra("create slice: %v", err)
			}
		}
		w.flips++
	case "PodDeleted":
		if err := w.kube.CoreV1().Pods(ns).Delete(ctx, s.P, metav1.DeleteOptions{}); err != nil {
			infra("delete pod: %v", err)
		}
		if w.isClaim(s.P) {
			w.releaseClaimOf(s.P)
		}
	case "GcBr": // the k8s garbage collector removes the BindRequest owned by a deleted pod
		if err := w.kai.SchedulingV1alpha2().BindRequests(ns).Delete(ctx, s.P, metav1.DeleteOptions{}); err != nil {
			infra("gc bindrequest: %v", err)
		}
		w.q[s.P], w.att[s.P], w.fl[s.P] = false, 0, 0
	}
	return snap, rec, 0
}

// enabled: is the step meaningful in the current real state (used by the random generator only)
func (w *world) enabled(s step, maxRestarts, maxFlips int) bool {
	switch s.N {
	case "SchedCycle":
		return true
	case "SchedCycleRefused": // some stale BindRequest whose DELETE would be refused
		for _, p := range w.pods {
			if (s.P == "" || s.P == p) && w.stale(p) {
				return true
			}
		}
		return false
	case "BinderAttempt":
		if s.Out == "faillabel" {
			return w.q[s.P] && w.reach(s.P) && w.sc.Req[s.P] < 100 && w.sc.Nd[s.P] == 2
		}
		if s.Out == "panic" { // PanicEnabled in spec/Handoff.tla: also on a terminally failed request
			return w.q[s.P] && w.reach(s.P)
		}
		if s.Out == "failclaim" {
			return w.q[s.P] && w.reach(s.P) && w.isClaim(s.P)
		}
		return w.q[s.P]
	case "BindDoneStatusLost":
		return w.q[s.P] && w.reach(s.P)
	case "BinderCrashAfterLabel":
		if !(w.q[s.P] && w.reach(s.P) && w.sc.Req[s.P] < 100 && w.restarts < maxRestarts) {
			return false
		}
		labelled := map[string]bool{}
		for _, g := range resources.GetGpuGroups(w.getPod(s.P)) {
			labelled[g] = true
		}
		for _, g := range w.getBr(s.P).Spec.SelectedGPUGroups {
			if !labelled[g] {
				return true
			}
		}
		return false
	case "StartDrain":
		return !w.draining
	case "BinderRestart":
		if w.restarts >= maxRestarts {
			return false
		}
		for _, p := range w.pods {
			if w.getBr(p) != nil && !w.q[p] {
				return true
			}
		}
		return false
	case "NodeDeleted":
		return w.nodeUp() && w.flips < maxFlips
	case "NodeAdded":
		return !w.nodeUp() && w.flips < maxFlips
	case "PodDeleted":
		return w.getPod(s.P) != nil
	case "GcBr":
		return w.getBr(s.P) != nil && w.getPod(s.P) == nil
	}
	infra("unknown step %q", s.N)
	return false
}

// reach: would a reconcile of p get as far as reserving GPU groups / binding?
func (w *world) reach(p string) bool {
	br, pod := w.getBr(p), w.getPod(p)
	return br != nil && br.Status.Phase != schedulingv1alpha2.BindRequestPhaseSucceeded && pod != nil && pod.Spec.NodeName == "" && w.nodeUp()
}

// terminal: the BindRequest of p is terminally failed (bindrequest_info.IsFailed)
func (w *world) terminal(p string) bool {
	br := w.getBr(p)
	return br != nil && br.Status.Phase == schedulingv1alpha2.BindRequestPhaseFailed &&
		(br.Spec.BackoffLimit == nil || br.Status.FailedAttempts >= *br.Spec.BackoffLimit)
}

// stale: the scheduler deletes the BindRequest of p in its next cycle (selected node deleted, or terminally failed)
func (w *world) stale(p string) bool {
	return w.getBr(p) != nil && (!w.nodeUp() || w.terminal(p))
}

// drain: the environment becomes fault-free. Orphaned BindRequests are garbage collected, the binder's queue is
// resynced, then rounds of {successful reconcile of every queued key, scheduler cycle} until nothing is queued
// and a cycle changes nothing (bounded). Returns 1 if the system came to rest.
func (w *world) drain(emit func(step)) int {
	for _, p := range w.pods {
		if w.getBr(p) != nil && w.getPod(p) == nil {
			emit(step{N: "GcBr", P: p})
		}
	}
	emit(step{N: "StartDrain"})
	for round := 0; round < 8; round++ {
		for _, p := range w.pods {
			if w.q[p] {
				emit(step{N: "BinderAttempt", P: p, Out: "ok"})
			}
		}
		before, _ := json.Marshal(w.projectStore())
		emit(step{N: "SchedCycle"})
		after, _ := json.Marshal(w.projectStore())
		queued := false
		for _, p := range w.pods {
			queued = queued || w.q[p]
		}
		if !queued && string(before) == string(after) { // nothing queued and the cycle had nothing to do: at rest
			return 1
		}
	}
	return 0
}

// ---------------------------------------------------------------------------------------------------
func runScenario(sc scenario, pods []string, tw *tracefmt.Writer, rnd *rand.Rand, randomLen int) {
	if sc.hasClaims() { // a DRA node takes no device-plugin GPU requests: claim scenarios are claim-only
		for _, p := range pods {
			if sc.Cl[p] < 1 || sc.Req[p] != 100 || sc.Nd[p] > 1 {
				infra("scenario %s: pod %s of a claim scenario must be a claim pod (cl = 1, req = 100, nd = 1)", sc.ID, p)
			}
		}
	}
	w := newWorld(sc, pods)
	defer w.close()
	req, nd, cl := map[string]any{}, map[string]any{}, map[string]any{}
	for _, p := range pods {
		req[p] = sc.Req[p]
		cl[p] = b2i(sc.Cl[p] > 0)
		nd[p] = 1
		if sc.Nd[p] > 1 {
			nd[p] = sc.Nd[p]
		}
	}
	seq := 0
	line := func(ev, p, out string, skip, conv int, snap, rec map[string]any) {
		tw.Emit(map[string]any{"ev": ev, "id": sc.ID, "lim": sc.Lim, "gpus": w.gpus(), "req": req, "nd": nd, "cl": cl, "seq": seq, "p": p, "out": out,
			"skip": skip, "conv": conv, "st": w.projectStore(), "snap": snap, "rec": rec})
	}
	line("Scenario", "", "", 0, 0, noSnap(pods), noRec)
	emit := func(s step) {
		snap, rec, skip := w.apply(s)
		seq++
		line(s.N, s.P, s.Out, skip, 0, snap, rec)
	}
	finish := func() { // every schedule ends with the fault-free drain and the verdict line of C12_Quiesces
		conv := w.drain(emit)
		seq++
		line("Quiesced", "", "", 0, conv, noSnap(pods), noRec)
	}
	if rnd == nil {
		for _, s := range sc.Steps {
			emit(s)
		}
		finish()
		return
	}
	defer finish()
	// seeded random schedule over the steps enabled in the real state
	persistFail := rnd.Intn(4) == 0
	for i := 0; i < randomLen; i++ {
		var cands []step
		add := func(s step, weight int) {
			if w.enabled(s, 2, 4) {
				for k := 0; k < weight; k++ {
					cands = append(cands, s)
				}
			}
		}
		add(step{N: "SchedCycle"}, 6)
		if w.refusals < 3 {
			add(step{N: "SchedCycleRefused"}, 3)
		}
		add(step{N: "BinderRestart"}, 1)
		add(step{N: "NodeDeleted"}, 1)
		add(step{N: "NodeAdded"}, 3)
		for _, p := range pods {
			add(step{N: "BinderAttempt", P: p, Out: "fail"}, 6)
			if w.panics < 6 && (w.sc.Req[p] >= 100 || w.leaks < 3) {
				add(step{N: "BinderAttempt", P: p, Out: "panic"}, 3)
			}
			if w.refusals < 3 {
				add(step{N: "SchedCycleRefused", P: p}, 1)
			}
			if w.leaks < 2 {
				add(step{N: "BinderAttempt", P: p, Out: "faillabel"}, 3)
			}
			add(step{N: "BinderAttempt", P: p, Out: "failclaim"}, 5)
			if !persistFail {
				add(step{N: "BinderCrashAfterLabel", P: p}, 3)
				add(step{N: "BinderAttempt", P: p, Out: "ok"}, 3)
				add(step{N: "BindDoneStatusLost", P: p}, 1)
			}
			add(step{N: "PodDeleted", P: p}, 1)
			add(step{N: "GcBr", P: p}, 3)
		}
		emit(cands[rnd.Intn(len(cands))])
	}
}

func main() {
	in := flag.String("in", "", "ndjson schedules exported by TLC")
	out := flag.String("out", "trace.ndjson", "ndjson trace")
	random := flag.Int("random", 0, "number of seeded random schedules")
	seed := flag.Int64("seed", 1, "seed")
	length := flag.Int("len", 25, "length of a random schedule")
	npods := flag.Int("pods", 3, "pods in a random scenario (names p1..pN)")
	claimPct := flag.Int("claims", 0, "percentage of random scenarios in which the pods are DRA claim pods")
	verbosity := flag.Int("v", 0, "scheduler log verbosity")
	flag.Parse()

	if err := schedlog.InitLoggers(*verbosity); err != nil {
		infra("loggers: %v", err)
	}
	ctrllog.SetLogger(logr.Discard())
	actions.InitDefaultActions()
	plugins.InitDefaultPlugins()

	tw, err := tracefmt.Create(*out)
	if err != nil {
		infra("create %s: %v", *out, err)
	}
	n, steps := 0, 0
	t0 := time.Now()
	if *in != "" {
		f, err := os.Open(*in)
		if err != nil {
			infra("open %s: %v", *in, err)
		}
		rd := bufio.NewScanner(f)
		rd.Buffer(make([]byte, 1<<20), 1<<26)
		for rd.Scan() {
			if len(rd.Bytes()) == 0 {
				continue
			}
			var sc scenario
			if err := json.Unmarshal(rd.Bytes(), &sc); err != nil {
				infra("bad schedule line: %v", err)
			}
			pods := make([]string, 0, len(sc.Req))
			for p := range sc.Req {
				pods = append(pods, p)
			}
			sort.Strings(pods)
			runScenario(sc, pods, tw, nil, 0)
			n++
			steps += len(sc.Steps)
		}
		f.Close()
	}
	if *random > 0 {
		rnd := rand.New(rand.NewSource(*seed))
		lims := []int{-1, 0, 1, 2, 3, 4}
		reqs := []int{100, 100, 50, 50, 25}
		for i := 0; i < *random; i++ {
			sc := scenario{ID: fmt.Sprintf("rnd-%d-%d", *seed, i), Lim: lims[rnd.Intn(len(lims))], Gpus: 1 + rnd.Intn(2), Req: map[string]int{}, Nd: map[string]int{}, Cl: map[string]int{}}
			claims := *claimPct > 0 && rnd.Intn(100) < *claimPct // a claim scenario: every pod asks for its GPU through a DRA resource claim
			var pods []string
			for k := 1; k <= *npods; k++ {
				p := fmt.Sprintf("p%d", k)
				pods = append(pods, p)
				sc.Req[p] = reqs[rnd.Intn(len(reqs))]
				sc.Nd[p] = 1
				if sc.Req[p] < 100 && sc.Gpus > 1 && rnd.Intn(2) == 0 {
					sc.Nd[p] = 2
				}
				if claims {
					sc.Req[p], sc.Nd[p], sc.Cl[p] = 100, 1, 1
				}
				if k == 1 || rnd.Intn(5) > 0 {
					sc.Present = append(sc.Present, p)
				}
			}
			runScenario(sc, pods, tw, rnd, *length)
			n++
			steps += *length
		}
	}
	if err := tw.Close(); err != nil {
		infra("close trace: %v", err)
	}
	fmt.Printf("scenarios=%d steps=%d events=%d wall=%.1fs\n", n, steps, tw.Count(), time.Since(t0).Seconds())
}
