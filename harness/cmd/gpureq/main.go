// Command gpureq observes what admission, scheduler and binder REALLY do with a pod's GPU request (C19).
//
// Input (-in): ndjson scenarios exported by TLC from spec/GpuRequest.tla, one class combination each:
//
//	{"frac","mem","dev","ctr","fcn","sharing","sig"}
//
// Every scenario is concretised to -variants strings per class (harness/internal/gpureqcls); with
// -mutate N additionally N seeded random string mutations around class boundaries are generated
// (class label "mut").
//
// Per pod the trace holds a Scenario line (classes, strings, signature) and one Observe event:
//
//	denoted   d_frac / d_mem / d_dev / d_gpu / d_memportion: the harness's OWN reading of the strings
//	          (denote.go: exact rational from its own grammar, or bottom) - never strconv
//	admission real podhooks mutator (Default) + validator (ValidateCreate) with the real gpusharing
//	          admission plugin, the mutator a second time (idempotence)
//	scheduler real pod_info.NewTaskInfo on the pod as stored after admission
//	binder    for admitted pods: the pod goes through one REAL scheduling cycle (internal/totalitysim,
//	          ample capacity), the BindRequest the scheduler created is given to the real binder
//	          gpusharing plugin (PreBind on a controller-runtime fake client) and the materialised
//	          GPU_PORTION of the ConfigMap is read back; ValidateGpuRequests is the binder-side validation
//
// Numbers are logged as {p, ok, x (exact text), n (clamped integer), sgn, int, cmp1}; TLC compares.
package main

import (
	"bufio"
	"context"
	"encoding/json"
	"flag"
	"fmt"
	"math"
	"math/big"
	"math/rand"
	"os"
	"strings"

	admissionv1 "k8s.io/api/admission/v1"
	v1 "k8s.io/api/core/v1"
	"k8s.io/apimachinery/pkg/api/equality"
	"k8s.io/apimachinery/pkg/api/resource"
	metav1 "k8s.io/apimachinery/pkg/apis/meta/v1"
	"k8s.io/apimachinery/pkg/runtime"
	"k8s.io/apimachinery/pkg/types"
	clientgoscheme "k8s.io/client-go/kubernetes/scheme"
	crfake "sigs.k8s.io/controller-runtime/pkg/client/fake"
	"sigs.k8s.io/controller-runtime/pkg/webhook/admission"

	admissionplugins "github.com/NVIDIA/KAI-scheduler/pkg/admission/plugins"
	admissiongpusharing "github.com/NVIDIA/KAI-scheduler/pkg/admission/webhook/v1alpha2/gpusharing"
	"github.com/NVIDIA/KAI-scheduler/pkg/admission/webhook/v1alpha2/podhooks"
	schedv1alpha2 "github.com/NVIDIA/KAI-scheduler/pkg/apis/scheduling/v1alpha2"
	bindercommon "github.com/NVIDIA/KAI-scheduler/pkg/binder/common"
	"github.com/NVIDIA/KAI-scheduler/pkg/binder/common/gpusharingconfigmap"
	binderplugins "github.com/NVIDIA/KAI-scheduler/pkg/binder/plugins"
	bindergpusharing "github.com/NVIDIA/KAI-scheduler/pkg/binder/plugins/gpusharing"
	gpurequesthandler "github.com/NVIDIA/KAI-scheduler/pkg/binder/plugins/gpusharing/gpu-request"
	"github.com/NVIDIA/KAI-scheduler/pkg/binder/plugins/state"
	"github.com/NVIDIA/KAI-scheduler/pkg/common/constants"
	"github.com/NVIDIA/KAI-scheduler/pkg/scheduler/api/pod_info"
	"github.com/NVIDIA/KAI-scheduler/pkg/scheduler/api/resource_info"

	"verif/harness/internal/gpureqcls"
	sim "verif/harness/internal/totalitysim"
	"verif/harness/internal/tracefmt"
)

const (
	nodeGpuMemMiB = 10000 // nvidia.com/gpu.memory of every node of the binder stage
	gpusPerNode   = 8
	microScale    = 1000000
)

type scenario struct {
	Frac    string `json:"frac"`
	Mem     string `json:"mem"`
	Dev     string `json:"dev"`
	Ctr     string `json:"ctr"`
	Fcn     string `json:"fcn"`
	Sharing int    `json:"sharing"`
	Cv      int    `json:"cv"` // class "cent": the fraction in 1/100 GPU (1..99)
	Sig     string `json:"sig"`
}

// one concrete pod under observation
type subject struct {
	id                string
	sc                scenario
	cls               string // "class" | "mut"
	sFrac, sMem, sDev string // gpureqcls.Absent when not set
	pod               *v1.Pod
	stored            *v1.Pod // the pod as stored after admission (mutated if mutation succeeded)
	obs               map[string]any
	admitted          bool
	denFrac, denMem   den
}

func buildPod(name string, s *subject) *v1.Pod {
	p := sim.Pod(name, "pg-"+name)
	p.Spec.Containers = append(p.Spec.Containers, v1.Container{Name: "sidecar", Image: "x",
		Resources: v1.ResourceRequirements{Requests: v1.ResourceList{v1.ResourceCPU: resource.MustParse("50m")}}})
	p.Spec.InitContainers = []v1.Container{{Name: "prep", Image: "x",
		Resources: v1.ResourceRequirements{Requests: v1.ResourceList{v1.ResourceCPU: resource.MustParse("50m")}}}}
	if s.sFrac != gpureqcls.Absent {
		p.Annotations[constants.GpuFraction] = s.sFrac
	}
	if s.sMem != gpureqcls.Absent {
		p.Annotations[constants.GpuMemory] = s.sMem
	}
	if s.sDev != gpureqcls.Absent {
		p.Annotations[constants.GpuFractionsNumDevices] = s.sDev
	}
	switch s.sc.Ctr {
	case "none":
	case "one":
		sim.SetGPU(&p.Spec.Containers[0], 1)
	case "two":
		sim.SetGPU(&p.Spec.Containers[0], 2)
	case "init":
		sim.SetGPU(&p.Spec.InitContainers[0], 1)
	default:
		panic("harness: unknown ctr class " + s.sc.Ctr)
	}
	switch s.sc.Fcn {
	case "absent":
	case "main":
		p.Annotations[constants.GpuFractionContainerName] = "main"
	case "init":
		p.Annotations[constants.GpuFractionContainerName] = "prep"
	case "unknown":
		p.Annotations[constants.GpuFractionContainerName] = "nope"
	default:
		panic("harness: unknown fcn class " + s.sc.Fcn)
	}
	return p
}

// denoted whole GPUs of the pod spec: max(sum over containers, max over init containers) of the limits
func denotedWholeGPUs(p *v1.Pod) int64 {
	var sum, initMax int64
	for _, c := range p.Spec.Containers {
		if q, ok := c.Resources.Limits[constants.NvidiaGpuResource]; ok {
			sum += q.Value()
		}
	}
	for _, c := range p.Spec.InitContainers {
		if q, ok := c.Resources.Limits[constants.NvidiaGpuResource]; ok && q.Value() > initMax {
			initMax = q.Value()
		}
	}
	if initMax > sum {
		return initMax
	}
	return sum
}

type admissionEnv struct {
	mutator   podhooks.PodMutator
	validator podhooks.PodValidator
}

func newAdmission(sharing bool) *admissionEnv {
	scheme := runtime.NewScheme()
	_ = clientgoscheme.AddToScheme(scheme)
	cl := crfake.NewClientBuilder().WithScheme(scheme).Build()
	pl := admissionplugins.New()
	pl.RegisterPlugin(admissiongpusharing.New(cl, sharing)) // cmd/admission registers exactly this plugin by default
	return &admissionEnv{
		mutator:   podhooks.NewPodMutator(cl, pl, sim.SchedulerName),
		validator: podhooks.NewPodValidator(cl, pl, sim.SchedulerName),
	}
}

func b2i(b bool) int {
	if b {
		return 1
	}
	return 0
}

func errStr(err error) string {
	if err == nil {
		return ""
	}
	s := err.Error()
	if len(s) > 160 {
		s = s[:160]
	}
	return s
}

func annQuantity(s string, scale int64, asFloat bool) (quantity, den) {
	if s == gpureqcls.Absent {
		return absentQ(), den{}
	}
	d := denote(s)
	return denQuantity(d, scale, asFloat), d
}

func observeAdmissionAndScheduler(s *subject, adm map[int]*admissionEnv, vm *resource_info.ResourceVectorMap) {
	o := map[string]any{"ev": "Observe"}
	ctx := admission.NewContextWithRequest(context.Background(), admission.Request{
		AdmissionRequest: admissionv1.AdmissionRequest{Namespace: sim.Namespace, Operation: admissionv1.Create}})

	// ---- denoted
	qf, df := annQuantity(s.sFrac, microScale, true)
	qm, dm := annQuantity(s.sMem, 1, false)
	qd, _ := annQuantity(s.sDev, 1, false)
	o["d_frac"], o["d_mem"], o["d_dev"] = qf, qm, qd
	o["d_gpu"] = intQuantity(denotedWholeGPUs(s.pod))
	// portion a memory request denotes on the nodes of the binder stage
	mp := absentQ()
	if dm.ok && dm.mag == 0 {
		r := new(big.Rat).Quo(dm.value(), new(big.Rat).SetInt64(nodeGpuMemMiB))
		mp = denQuantity(den{ok: true, neg: r.Sign() < 0, zero: r.Sign() == 0, rat: new(big.Rat).Abs(r)}, microScale, true)
	} else if dm.ok {
		mp = denQuantity(dm, microScale, true)
	}
	o["d_memportion"] = mp
	o["d_centi_lo"], o["d_centi_hi"] = roundHalfUpCenti(df)
	s.denFrac, s.denMem = df, dm

	// ---- admission: mutating webhook, then validating webhook, as the API server calls them
	env := adm[s.sc.Sharing]
	m1 := s.pod.DeepCopy()
	errM1 := env.mutator.Default(ctx, m1)
	var errV error
	if errM1 == nil {
		_, errV = env.validator.ValidateCreate(ctx, m1)
	}
	_, errV0 := env.validator.ValidateCreate(ctx, s.pod.DeepCopy()) // validator alone, on the unmutated pod
	// the same objects arriving as an UPDATE of a stored pod that differs only in its GPU annotations (kubectl
	// annotate): the validating webhook must give the verdict it gives on CREATE
	updSame := 1
	{
		uctx := admission.NewContextWithRequest(context.Background(), admission.Request{
			AdmissionRequest: admissionv1.AdmissionRequest{Namespace: sim.Namespace, Operation: admissionv1.Update}})
		strip := func(p *v1.Pod) *v1.Pod {
			o := p.DeepCopy()
			for _, k := range []string{constants.GpuFraction, constants.GpuMemory, constants.GpuFractionsNumDevices} {
				delete(o.Annotations, k)
			}
			return o
		}
		_, errU0 := env.validator.ValidateUpdate(uctx, strip(s.pod), s.pod.DeepCopy())
		if (errU0 == nil) != (errV0 == nil) {
			updSame = 0
		}
		if errM1 == nil {
			_, errU := env.validator.ValidateUpdate(uctx, strip(m1), m1.DeepCopy())
			if (errU == nil) != (errV == nil) {
				updSame = 0
			}
		}
	}
	o["a_update_same"] = updSame
	s.admitted = errM1 == nil && errV == nil
	o["a_mutate_ok"] = b2i(errM1 == nil)
	o["a_validate_ok"] = b2i(errM1 == nil && errV == nil)
	o["a_validate_unmutated_ok"] = b2i(errV0 == nil)
	o["a_admitted"] = b2i(s.admitted)
	o["a_err"] = errStr(errM1) + errStr(errV)
	// idempotence: mutating the mutated pod again changes nothing
	idem, m2ok := 1, 1
	if errM1 == nil {
		m2 := m1.DeepCopy()
		errM2 := env.mutator.Default(ctx, m2)
		m2ok = b2i(errM2 == nil)
		idem = b2i(errM2 == nil && equality.Semantic.DeepEqual(m1, m2))
	}
	o["a_mutate2_ok"], o["a_idem"] = m2ok, idem
	s.stored = s.pod
	if errM1 == nil {
		s.stored = m1
	}

	// ---- scheduler: PodInfo of the stored pod
	pi := pod_info.NewTaskInfo(s.stored.DeepCopy(), nil, vm)
	o["s_type"] = string(pi.ResourceRequestType)
	o["s_sharing"] = b2i(pi.IsSharedGPURequest())
	o["s_portion"] = floatQuantity(pi.ResReq.GpuFractionalPortion(), microScale)
	o["s_mem"] = intQuantity(pi.ResReq.GpuMemory())
	o["s_count"] = intQuantity(pi.ResReq.GetNumOfGpuDevices())
	o["s_gpus"] = floatQuantity(pi.ResReq.GPUs(), microScale)
	o["s_requires"] = b2i(pi.IsRequireAnyKindOfGPU())
	// accounted amounts in 1/100 GPU: total (GPUs(), GetGpusQuota()) and per device
	o["s_gpus_centi"] = centi(pi.ResReq.GPUs())
	o["s_quota_centi"] = centi(pi.ResReq.GetGpusQuota())
	o["s_perdev_centi"] = centi(resource_info.NewGpuResourceRequirementWithGpus(pi.ResReq.GpuFractionalPortion(), 0).GPUs())

	// binder fields are filled by the binder stage (defaults: not reached)
	o["b_reached"], o["b_type"], o["b_count"], o["b_groups"] = 0, "", 0, 0
	o["b_prebind_ok"], o["b_validate_ok"], o["b_err"] = 0, 0, ""
	o["b_portion"], o["b_brportion"] = absentQ(), absentQ()
	s.obs = o
}

// binderStage: the admitted pods of one batch go through one real scheduling cycle; every created
// BindRequest is handed to the real binder gpusharing plugin.
func binderStage(batch []*subject) {
	c := &sim.Cluster{}
	c.Queues = append(c.Queues, sim.Queue("dept", ""), sim.Queue("team", "dept"))
	nNodes := len(batch) + 1 // every pod alone fits a node, so everything that can be placed at all is placed
	for i := 0; i < nNodes; i++ {
		c.Nodes = append(c.Nodes, sim.Node(fmt.Sprintf("n%03d", i), gpusPerNode, nodeGpuMemMiB))
	}
	byName := map[string]*subject{}
	for _, s := range batch {
		p := s.stored.DeepCopy()
		c.Pods = append(c.Pods, p)
		c.PodGroups = append(c.PodGroups, sim.PodGroup("pg-"+p.Name, "team", 1))
		byName[p.Name] = s
	}
	res := sim.RunCycle(c, nil, nil)
	if res.Panic != "" || res.OpenErr != "" {
		fmt.Fprintf(os.Stderr, "harness: the scheduling cycle of the binder stage failed: %s %s\n%s\n", res.Panic, res.OpenErr, res.PanicStack)
		os.Exit(3)
	}
	for _, br := range res.BindRequests {
		s := byName[br.Spec.PodName]
		if s == nil {
			continue
		}
		observeBinder(s, br)
	}
}

func observeBinder(s *subject, br *schedv1alpha2.BindRequest) {
	o := s.obs
	o["b_reached"] = 1
	o["b_type"] = br.Spec.ReceivedResourceType
	if br.Spec.ReceivedGPU != nil {
		o["b_count"] = br.Spec.ReceivedGPU.Count
		q, _ := annQuantity(br.Spec.ReceivedGPU.Portion, microScale, true)
		o["b_brportion"] = q
	}
	o["b_groups"] = len(br.Spec.SelectedGPUGroups)

	pod := s.stored.DeepCopy()
	scheme := runtime.NewScheme()
	_ = clientgoscheme.AddToScheme(scheme)
	cl := crfake.NewClientBuilder().WithScheme(scheme).WithObjects(pod.DeepCopy()).Build()
	// binder-side validation of the request (the validator lives in the binder's gpusharing package)
	o["b_validate_ok"] = b2i(gpurequesthandler.ValidateGpuRequests(pod) == nil)

	pl := binderplugins.New()
	pl.RegisterPlugin(bindergpusharing.New(cl, false))
	st := &state.BindingState{}
	for i := range br.Spec.SelectedGPUGroups {
		st.ReservedGPUIds = append(st.ReservedGPUIds, fmt.Sprint(i))
	}
	node := &v1.Node{ObjectMeta: metav1.ObjectMeta{Name: br.Spec.SelectedNode}}
	err := pl.PreBind(context.Background(), pod, node, br, st)
	o["b_prebind_ok"] = b2i(err == nil)
	o["b_err"] = errStr(err)
	if err != nil || !bindercommon.IsSharedGPUAllocation(br) {
		return
	}
	// read back what was materialised for the container
	ref, err := bindercommon.GetFractionContainerRef(pod)
	if err != nil {
		o["b_err"] = errStr(err)
		return
	}
	name, err := gpusharingconfigmap.ExtractCapabilitiesConfigMapName(pod, ref)
	if err != nil {
		o["b_err"] = errStr(err)
		return
	}
	cm := &v1.ConfigMap{}
	if err := cl.Get(context.Background(), types.NamespacedName{Namespace: pod.Namespace, Name: name}, cm); err != nil {
		o["b_err"] = errStr(err)
		return
	}
	portion, found := cm.Data[bindercommon.GPUPortion]
	if !found {
		o["b_err"] = "GPU_PORTION missing in configmap"
		return
	}
	q, _ := annQuantity(portion, microScale, true)
	o["b_portion"] = q
	// the container really references that ConfigMap key
	refOK := false
	for _, e := range ref.Container.Env {
		if e.Name == bindercommon.GPUPortion && e.ValueFrom != nil && e.ValueFrom.ConfigMapKeyRef != nil &&
			e.ValueFrom.ConfigMapKeyRef.Name == name {
			refOK = true
		}
	}
	if !refOK {
		o["b_err"] = "container env GPU_PORTION does not reference the materialised configmap"
		o["b_prebind_ok"] = 0
	}
}

// ---------------------------------------------------------------------------------------------
// string mutations around class boundaries
// ---------------------------------------------------------------------------------------------
var boundarySeeds = map[string][]string{
	"frac": {"0.5", "0.99", "0.999999999999999999999", "1", "1.0000000000000000000001", "0.01", "0.005", "0.0049999", "0.00999",
		"1e-2", "9.9e-1", "0x1p-7", "0x.fffffffffffff8p0", "0", "1e-320", "5e-324", "2e-324", ".5", "5.e-1", "0.5e0", "00.5", "NaN", "Inf", "1e-400"},
	"mem": {"2500", "1", "0", "9223372036854775807", "9223372036854775808", "18446744073709551615", "18446744073709551616",
		"10000", "10001", "100", "99", "2147483647", "2147483648", "4294967296", "02500", "2500.0", "25e2"},
	"dev": {"1", "2", "0", "8", "9", "9223372036854775807", "9223372036854775808", "18446744073709551615", "18446744073709551616",
		"2147483648", "4294967297", "02", "2.0", "2e0"},
}

const mutAlphabet = "0123456789.eE+-xXpP_ nNaAiIfF"

func mutate(r *rand.Rand, s string) string {
	b := []byte(s)
	for k := r.Intn(3); k >= 0; k-- {
		switch op := r.Intn(4); {
		case op == 0 && len(b) > 0: // delete
			i := r.Intn(len(b))
			b = append(b[:i:i], b[i+1:]...)
		case op == 1: // insert
			i := r.Intn(len(b) + 1)
			c := mutAlphabet[r.Intn(len(mutAlphabet))]
			b = append(b[:i:i], append([]byte{c}, b[i:]...)...)
		case op == 2 && len(b) > 0: // replace
			b[r.Intn(len(b))] = mutAlphabet[r.Intn(len(mutAlphabet))]
		default: // bump a digit
			for try := 0; try < 4 && len(b) > 0; try++ {
				i := r.Intn(len(b))
				if b[i] >= '0' && b[i] <= '9' {
					b[i] = byte('0' + r.Intn(10))
					break
				}
			}
		}
	}
	return string(b)
}

func mutants(r *rand.Rand, n int) []*subject {
	var out []*subject
	for i := 0; i < n; i++ {
		s := &subject{cls: "mut", sFrac: gpureqcls.Absent, sMem: gpureqcls.Absent, sDev: gpureqcls.Absent}
		s.sc = scenario{Frac: "mut", Mem: "mut", Dev: "mut", Ctr: "none", Fcn: "absent", Sharing: 1}
		which := []string{"frac", "mem", "dev"}[r.Intn(3)]
		seed := boundarySeeds[which][r.Intn(len(boundarySeeds[which]))]
		str := seed
		if r.Intn(4) != 0 {
			str = mutate(r, seed)
		}
		switch which {
		case "frac":
			s.sFrac = str
			s.sc.Mem, s.sc.Dev = "absent", "absent"
			if r.Intn(3) == 0 {
				s.sDev, s.sc.Dev = "2", "two"
			}
		case "mem":
			s.sMem = str
			s.sc.Frac, s.sc.Dev = "absent", "absent"
		case "dev":
			s.sDev = str
			s.sFrac, s.sc.Frac, s.sc.Mem = "0.5", "dec", "absent"
		}
		if r.Intn(6) == 0 {
			s.sc.Fcn = []string{"main", "init"}[r.Intn(2)]
		}
		s.sc.Sig = "mutated-string " + map[string]string{"frac": "gpu-fraction", "mem": "gpu-memory", "dev": "num-devices"}[which]
		out = append(out, s)
	}
	return out
}

// centSpelling: the two-decimal fraction v/100 in its plain spelling (k = 0) and in other spellings
func centSpelling(v, k int) string {
	switch k % 3 {
	case 0:
		return fmt.Sprintf("0.%02d", v)
	case 1:
		return fmt.Sprintf("%de-2", v)
	default:
		return fmt.Sprintf("+.%02d0", v)
	}
}

// roundHalfUpCenti: the denoted value in 1/100 units, rounded half up on the exact rational; lo = hi - 1 only
// when the value sits exactly on a half (either neighbour is then accepted)
func roundHalfUpCenti(d den) (lo, hi int) {
	if !d.ok || d.mag != 0 || d.neg {
		return 0, 0
	}
	v := new(big.Rat).Mul(d.value(), big.NewRat(100, 1))
	if v.Cmp(big.NewRat(clampN, 1)) > 0 {
		return clampN, clampN
	}
	fl := new(big.Int).Quo(v.Num(), v.Denom()) // v >= 0: floor
	frac := new(big.Rat).Sub(v, new(big.Rat).SetInt(fl))
	c := frac.Cmp(big.NewRat(1, 2))
	f := int(fl.Int64())
	switch {
	case c < 0:
		return f, f
	case c > 0:
		return f + 1, f + 1
	}
	return f, f + 1
}

func centi(f float64) int {
	if math.IsNaN(f) || math.IsInf(f, 0) || math.Abs(f*100) > clampN {
		return -1
	}
	return int(math.Round(f * 100))
}

func strOrAbsent(s string) string {
	if s == gpureqcls.Absent {
		return "<absent>"
	}
	return s
}

func main() {
	in := flag.String("in", "", "scenarios (ndjson of class combinations)")
	out := flag.String("out", "", "trace (ndjson)")
	variants := flag.Int("variants", 2, "strings per class combination (1..3)")
	nmut := flag.Int("mutate", 0, "seeded random string mutations")
	seed := flag.Int64("seed", 1, "seed")
	batchSize := flag.Int("batch", 96, "admitted pods per real scheduling cycle of the binder stage")
	flag.Parse()
	sim.Init(0)
	rnd := rand.New(rand.NewSource(*seed))

	var subjects []*subject
	if *in != "" {
		f, err := os.Open(*in)
		if err != nil {
			fmt.Fprintln(os.Stderr, err)
			os.Exit(2)
		}
		sc := bufio.NewScanner(f)
		sc.Buffer(make([]byte, 1<<20), 1<<24)
		for sc.Scan() {
			if len(strings.TrimSpace(sc.Text())) == 0 {
				continue
			}
			var s scenario
			if err := json.Unmarshal(sc.Bytes(), &s); err != nil {
				fmt.Fprintln(os.Stderr, "bad scenario:", err)
				os.Exit(2)
			}
			seen := map[string]bool{}
			for k := 0; k < *variants; k++ {
				sub := &subject{sc: s, cls: "class"}
				var ok1, ok2, ok3 bool
				if s.Frac == "cent" {
					sub.sFrac, ok1 = centSpelling(s.Cv, k), s.Cv >= 1 && s.Cv <= 99
				} else {
					sub.sFrac, ok1 = gpureqcls.Pick(gpureqcls.Frac, s.Frac, k)
				}
				sub.sMem, ok2 = gpureqcls.Pick(gpureqcls.Mem, s.Mem, k)
				sub.sDev, ok3 = gpureqcls.Pick(gpureqcls.Dev, s.Dev, k)
				if !ok1 || !ok2 || !ok3 {
					fmt.Fprintf(os.Stderr, "unknown class in %+v\n", s)
					os.Exit(2)
				}
				key := sub.sFrac + "\x01" + sub.sMem + "\x01" + sub.sDev
				if seen[key] {
					continue
				}
				seen[key] = true
				subjects = append(subjects, sub)
			}
		}
		f.Close()
	}
	subjects = append(subjects, mutants(rnd, *nmut)...)

	adm := map[int]*admissionEnv{0: newAdmission(false), 1: newAdmission(true)}
	vm := resource_info.NewResourceVectorMap()
	for i, s := range subjects {
		s.id = fmt.Sprintf("p%06d", i+1)
		if i%5 == 4 {
			// names longer than what generated object names keep of them (config maps derived from the pod's name)
			s.id += "-of-a-workload-with-a-rather-long-name"
		}
		s.pod = buildPod(s.id, s)
		observeAdmissionAndScheduler(s, adm, vm)
	}
	// binder stage for the admitted pods
	var admitted []*subject
	for _, s := range subjects {
		if s.admitted {
			admitted = append(admitted, s)
		}
	}
	cycles := 0
	for i := 0; i < len(admitted); i += *batchSize {
		j := i + *batchSize
		if j > len(admitted) {
			j = len(admitted)
		}
		binderStage(admitted[i:j])
		cycles++
	}

	tw, err := tracefmt.Create(*out)
	if err != nil {
		fmt.Fprintln(os.Stderr, err)
		os.Exit(2)
	}
	nReached := 0
	for _, s := range subjects {
		tw.Emit(map[string]any{"ev": "Scenario", "id": s.id, "sig": s.sc.Sig, "cls": s.cls,
			"frac": s.sc.Frac, "mem": s.sc.Mem, "dev": s.sc.Dev, "ctr": s.sc.Ctr, "fcn": s.sc.Fcn, "sharing": s.sc.Sharing, "cv": s.sc.Cv,
			"s_frac": strOrAbsent(s.sFrac), "s_mem": strOrAbsent(s.sMem), "s_dev": strOrAbsent(s.sDev),
			"nodemem": nodeGpuMemMiB, "maxfit": gpusPerNode})
		tw.Emit(s.obs)
		if s.obs["b_reached"] == 1 {
			nReached++
		}
	}
	if err := tw.Close(); err != nil {
		fmt.Fprintln(os.Stderr, err)
		os.Exit(2)
	}
	fmt.Printf("pods=%d admitted=%d bound_in_real_cycles=%d cycles=%d events=%d\n", len(subjects), len(admitted), nReached, cycles, tw.Count())
}
