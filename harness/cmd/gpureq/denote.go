package main

// The harness's own reading of an annotation string: an exact rational, or "bottom".
// Deliberately independent of strconv: a hand-written recogniser for
//
//	number   := sign? (decimal | hexfloat)
//	decimal  := (digit+ ('.' digit*)? | '.' digit+) (('e'|'E') sign? digit+)?
//	hexfloat := '0' ('x'|'X') (hex+ ('.' hex*)? | '.' hex+) ('p'|'P') sign? digit+
//	            ('_' may separate digits, and follow the 0x prefix, as in Go literals: 1_000.5, 0x_1p-1)
//
// Anything else (empty, whitespace, NaN, Inf, units, two dots ...) denotes nothing.
// The value is mant * 10^e10 * 2^e2 with arbitrary precision; exponents beyond +-20000 are kept
// symbolically (huge / tiny magnitudes compare correctly against every bound used here).

import (
	"math"
	"math/big"
	"strconv"
)

const expCap = 20000

type den struct {
	ok   bool
	neg  bool
	zero bool
	mag  int      // 0: rat is exact; +1: magnitude above every bound (huge); -1: magnitude below every bound (tiny, nonzero)
	rat  *big.Rat // |value| when mag == 0
}

func isDigit(c byte) bool { return c >= '0' && c <= '9' }
func hexVal(c byte) int {
	switch {
	case c >= '0' && c <= '9':
		return int(c - '0')
	case c >= 'a' && c <= 'f':
		return int(c-'a') + 10
	case c >= 'A' && c <= 'F':
		return int(c-'A') + 10
	}
	return -1
}

func denote(s string) den {
	bottom := den{}
	i, n := 0, len(s)
	if n == 0 {
		return bottom
	}
	d := den{ok: true}
	if s[i] == '+' || s[i] == '-' {
		d.neg = s[i] == '-'
		i++
	}
	mant := new(big.Int)
	fracDigits := 0
	ndigits := 0
	hex := false
	if i+1 < n && s[i] == '0' && (s[i+1] == 'x' || s[i+1] == 'X') {
		hex = true
		i += 2
		seenDot := false
		prevSep := true // an underscore may directly follow the prefix
		for i < n {
			c := s[i]
			if c == '_' {
				// must be followed by a hex digit and preceded by the prefix or a digit
				if !(prevSep || ndigits > 0) || i+1 >= n || hexVal(s[i+1]) < 0 || (i > 0 && s[i-1] == '_') || (i > 0 && s[i-1] == '.') {
					return bottom
				}
				i++
				prevSep = false
				continue
			}
			if c == '.' {
				if seenDot {
					return bottom
				}
				seenDot = true
				i++
				prevSep = false
				continue
			}
			v := hexVal(c)
			if v < 0 {
				break
			}
			mant.Mul(mant, big.NewInt(16))
			mant.Add(mant, big.NewInt(int64(v)))
			ndigits++
			if seenDot {
				fracDigits++
			}
			prevSep = false
			i++
		}
		if ndigits == 0 || i >= n || (s[i] != 'p' && s[i] != 'P') {
			return bottom
		}
	} else {
		seenDot := false
		for i < n {
			c := s[i]
			if c == '.' {
				if seenDot {
					return bottom
				}
				seenDot = true
				i++
				continue
			}
			if c == '_' {
				// digit separator: between two digits only
				if i == 0 || !isDigit(s[i-1]) || i+1 >= n || !isDigit(s[i+1]) {
					return bottom
				}
				i++
				continue
			}
			if !isDigit(c) {
				break
			}
			mant.Mul(mant, big.NewInt(10))
			mant.Add(mant, big.NewInt(int64(c-'0')))
			ndigits++
			if seenDot {
				fracDigits++
			}
			i++
		}
		if ndigits == 0 {
			return bottom
		}
	}
	// exponent
	exp := new(big.Int)
	if i < n {
		c := s[i]
		if (hex && (c == 'p' || c == 'P')) || (!hex && (c == 'e' || c == 'E')) {
			i++
			eneg := false
			if i < n && (s[i] == '+' || s[i] == '-') {
				eneg = s[i] == '-'
				i++
			}
			ed := 0
			for i < n && (isDigit(s[i]) || (s[i] == '_' && ed > 0 && i+1 < n && isDigit(s[i+1]))) {
				if s[i] == '_' {
					i++
					continue
				}
				if exp.BitLen() < 64 { // beyond that it is "huge" anyway
					exp.Mul(exp, big.NewInt(10))
					exp.Add(exp, big.NewInt(int64(s[i]-'0')))
				}
				ed++
				i++
			}
			if ed == 0 {
				return bottom
			}
			if eneg {
				exp.Neg(exp)
			}
		}
	}
	if i != n {
		return bottom
	}
	if mant.Sign() == 0 {
		d.zero = true
		d.rat = new(big.Rat)
		return d
	}
	// effective exponent
	if hex {
		exp.Sub(exp, big.NewInt(int64(4*fracDigits)))
	} else {
		exp.Sub(exp, big.NewInt(int64(fracDigits)))
	}
	// magnitude = mant * base^exp; mant has at most len(s) digits, so |exp| > expCap + 4*len(s) decides
	lim := big.NewInt(int64(expCap + 4*len(s)))
	if exp.CmpAbs(lim) > 0 {
		if exp.Sign() > 0 {
			d.mag = 1
		} else {
			d.mag = -1
		}
		return d
	}
	e := int(exp.Int64())
	base := big.NewInt(10)
	if hex {
		base = big.NewInt(2)
	}
	pow := new(big.Int).Exp(base, big.NewInt(int64(abs(e))), nil)
	r := new(big.Rat).SetInt(mant)
	if e >= 0 {
		r.Mul(r, new(big.Rat).SetInt(pow))
	} else {
		r.Quo(r, new(big.Rat).SetInt(pow))
	}
	d.rat = r
	return d
}

func abs(x int) int {
	if x < 0 {
		return -x
	}
	return x
}

func (d den) sign() int {
	if !d.ok || d.zero {
		return 0
	}
	if d.neg {
		return -1
	}
	return 1
}

// cmpInt compares the denoted value with the integer k (only meaningful if d.ok).
func (d den) cmpInt(k int64) int {
	if !d.ok {
		return 0
	}
	if d.zero {
		return big.NewInt(0).Cmp(big.NewInt(k))
	}
	kk := new(big.Rat).SetInt64(k)
	switch d.mag {
	case 1:
		if d.neg {
			return -1
		}
		return 1
	case -1:
		// tiny nonzero: sign decides against 0, otherwise it sits right next to 0
		z := new(big.Rat)
		c := z.Cmp(kk)
		if c != 0 {
			return c
		}
		if d.neg {
			return -1
		}
		return 1
	}
	v := new(big.Rat).Set(d.rat)
	if d.neg {
		v.Neg(v)
	}
	return v.Cmp(kk)
}

func (d den) isInt() bool {
	if !d.ok {
		return false
	}
	if d.zero {
		return true
	}
	if d.mag == 1 {
		return true // a huge power of the base times an integer mantissa
	}
	if d.mag == -1 {
		return false
	}
	return d.rat.IsInt()
}

// value returns the signed rational (nil for symbolic magnitudes).
func (d den) value() *big.Rat {
	if !d.ok || d.mag != 0 {
		return nil
	}
	v := new(big.Rat).Set(d.rat)
	if d.neg {
		v.Neg(v)
	}
	return v
}

const clampN = 2000000000

func clampBig(x *big.Int) int {
	if x.CmpAbs(big.NewInt(clampN)) > 0 {
		if x.Sign() < 0 {
			return -clampN
		}
		return clampN
	}
	return int(x.Int64())
}

// roundRat rounds half away from zero.
func roundRat(r *big.Rat) *big.Int {
	two := big.NewInt(2)
	num := new(big.Int).Mul(r.Num(), two)
	den := new(big.Int).Mul(r.Denom(), two)
	// floor((2n + d') / 2d) with d' = denom: add denom (i.e. +1/2)
	adj := new(big.Int).Set(r.Denom())
	if r.Sign() < 0 {
		adj.Neg(adj)
	}
	num.Add(num, adj)
	q := new(big.Int).Quo(num, den) // truncates toward zero: correct after the signed adjustment
	return q
}

// quantity is what goes into the trace for one number: an exact rendering for equality (x), a
// clamped integer in `scale` units for ordering (n), the exact sign, integrality, and the exact
// comparison with 1.
type quantity struct {
	P    int    `json:"p"`    // present
	OK   int    `json:"ok"`   // denotes a number
	X    string `json:"x"`    // exact rendering ("bottom", "NaN", "+Inf", "-Inf", "huge", "tiny", float or integer text)
	N    int    `json:"n"`    // value * scale rounded, clamped to +-2e9
	Sgn  int    `json:"sgn"`  // exact sign
	Int  int    `json:"int"`  // integer-valued
	Cmp1 int    `json:"cmp1"` // exact comparison with 1
}

func absentQ() quantity { return quantity{X: "absent"} }

// denQuantity renders a denotation. asFloat: x is the shortest decimal of the nearest float64
// (so that equality with a float64 observed in the implementation is exact equality of floats);
// otherwise x is the exact integer text (or "n/d").
func denQuantity(d den, scale int64, asFloat bool) quantity {
	q := quantity{P: 1}
	if !d.ok {
		q.X = "bottom"
		return q
	}
	q.OK = 1
	q.Sgn = d.sign()
	q.Cmp1 = d.cmpInt(1)
	if d.isInt() {
		q.Int = 1
	}
	switch d.mag {
	case 1:
		q.X = "huge"
		if d.neg {
			q.X = "-huge"
			q.N = -clampN
		} else {
			q.N = clampN
		}
		return q
	case -1:
		q.X = "tiny"
		if d.neg {
			q.X = "-tiny"
		}
		if asFloat {
			// nearest float64 of a magnitude below 10^-20000 is (signed) zero
			q.X = "0"
			if d.neg {
				q.X = "-0"
			}
		}
		return q
	}
	v := d.value()
	q.N = clampBig(roundRat(new(big.Rat).Mul(v, new(big.Rat).SetInt64(scale))))
	if asFloat {
		f, _ := v.Float64()
		if d.zero && d.neg {
			f = math.Copysign(0, -1)
		}
		q.X = fmtFloat(f)
	} else if v.IsInt() {
		q.X = v.Num().String()
	} else {
		q.X = v.String()
	}
	return q
}

func fmtFloat(f float64) string {
	if math.IsNaN(f) {
		return "NaN"
	}
	if math.IsInf(f, 1) {
		return "+Inf"
	}
	if math.IsInf(f, -1) {
		return "-Inf"
	}
	return strconv.FormatFloat(f, 'g', -1, 64)
}

// floatQuantity renders a float64 observed in the implementation.
func floatQuantity(f float64, scale float64) quantity {
	q := quantity{P: 1, OK: 1, X: fmtFloat(f)}
	if math.IsNaN(f) {
		q.OK = 0
		return q
	}
	if math.IsInf(f, 0) {
		q.OK = 0
		if f > 0 {
			q.Sgn, q.N, q.Cmp1 = 1, clampN, 1
		} else {
			q.Sgn, q.N, q.Cmp1 = -1, -clampN, -1
		}
		return q
	}
	switch {
	case f > 0:
		q.Sgn = 1
	case f < 0:
		q.Sgn = -1
	}
	switch {
	case f > 1:
		q.Cmp1 = 1
	case f < 1:
		q.Cmp1 = -1
	}
	if f == math.Trunc(f) {
		q.Int = 1
	}
	v := math.Round(f * scale)
	if v > clampN {
		v = clampN
	}
	if v < -clampN {
		v = -clampN
	}
	q.N = int(v)
	return q
}

func intQuantity(v int64) quantity {
	q := quantity{P: 1, OK: 1, X: strconv.FormatInt(v, 10), Int: 1}
	switch {
	case v > 0:
		q.Sgn = 1
	case v < 0:
		q.Sgn = -1
	}
	switch {
	case v > 1:
		q.Cmp1 = 1
	case v < 1:
		q.Cmp1 = -1
	}
	c := v
	if c > clampN {
		c = clampN
	}
	if c < -clampN {
		c = -clampN
	}
	q.N = int(c)
	return q
}
