// Command totality runs ONE real scheduling cycle per scenario of spec/Totality.tla (C10).
//
// Parent mode (default):  totality -in scen.ndjson -out trace.ndjson [-par N] [-timeout 20s] [-hangcap 1]
//
//	every scenario is executed in a CHILD PROCESS (a hung goroutine cannot be killed; a panic in a
//	goroutine the harness does not own, a fatal error or a stack overflow kills the process). A child
//	serves scenarios until one hangs or kills it. The parent is the watchdog and the trace writer:
//	  Scenario, CycleStart, Snapshot{live}, Bind{pod,node}*, CycleEnd{ms}
//	  ... Panic{msg,where}      recovered in the cycle goroutine, or "process died"
//	  ... Timeout{after}        no completion within -timeout and, in a fresh child, within 3 x -timeout; child killed
//	-hangcap k: once k scenarios with the same `sig` timed out, further scenarios with that sig are
//	not run (each costs a full timeout and adds no new signature); they are counted as skipped.
//
// Child mode: totality -child   (scenarios on stdin, one JSON per line; events on stdout as "EV <json>").
//
// The cycle is exactly cmd/snapshot-tool's: fake clientsets -> cache.New -> Run/WaitForCacheSync ->
// framework.OpenSession -> every action of the default configuration -> CloseSession
// (harness/internal/totalitysim).
package main

import (
	"bufio"
	"encoding/json"
	"flag"
	"fmt"
	"io"
	"os"
	"os/exec"
	"regexp"
	"sort"
	"strings"
	"sync"
	"time"

	v1 "k8s.io/api/core/v1"
	schedulingv1 "k8s.io/api/scheduling/v1"
	"k8s.io/apimachinery/pkg/api/resource"
	metav1 "k8s.io/apimachinery/pkg/apis/meta/v1"

	queuev2 "github.com/NVIDIA/KAI-scheduler/pkg/apis/scheduling/v2"
	pgv2alpha2 "github.com/NVIDIA/KAI-scheduler/pkg/apis/scheduling/v2alpha2"
	"github.com/NVIDIA/KAI-scheduler/pkg/common/constants"

	"verif/harness/internal/gpureqcls"
	sim "verif/harness/internal/totalitysim"
	"verif/harness/internal/tracefmt"
)

type qrec struct {
	Name   string `json:"name"`
	Parent string `json:"parent"`
}
type subrec struct {
	Name   string `json:"name"`
	Parent string `json:"parent"`
	Min    int    `json:"min"`
}
type scenario struct {
	ID     string   `json:"id"`
	Sig    string   `json:"sig"`
	Hang   int      `json:"hang"`
	Fam    string   `json:"fam"`
	Queues []qrec   `json:"queues"`
	JobQ   string   `json:"jobq"`
	PgMin  int      `json:"pgmin"`
	Subs   []subrec `json:"subs"`
	Labels []string `json:"labels"`
	Frac   string   `json:"frac"`
	Mem    string   `json:"mem"`
	Dev    string   `json:"dev"`
	Gpu    int      `json:"gpu"`
	Node   string   `json:"node"`
	Pin    int      `json:"pin"`
	Press  int      `json:"press"`
	Run    int      `json:"run"`
	Sit    string   `json:"sit"`
	Var    int      `json:"var"`
}

const missingQueue = "no-such-queue"

func (s *scenario) event() map[string]any {
	qs := []any{}
	for _, q := range s.Queues {
		qs = append(qs, map[string]any{"name": q.Name, "parent": q.Parent})
	}
	ss := []any{}
	for _, g := range s.Subs {
		ss = append(ss, map[string]any{"name": g.Name, "parent": g.Parent, "min": g.Min})
	}
	ls := []any{}
	for _, l := range s.Labels {
		ls = append(ls, l)
	}
	return map[string]any{"ev": "Scenario", "id": s.ID, "sig": s.Sig, "hang": s.Hang, "fam": s.Fam, "queues": qs,
		"jobq": s.JobQ, "pgmin": s.PgMin, "subs": ss, "labels": ls, "frac": s.Frac, "mem": s.Mem, "dev": s.Dev,
		"gpu": s.Gpu, "node": s.Node, "pin": s.Pin, "press": s.Press, "run": s.Run, "sit": s.Sit, "var": s.Var}
}

// ---------------------------------------------------------------------------------------------
// scenario -> API objects
// ---------------------------------------------------------------------------------------------
func malformedNode(class string) *v1.Node {
	n := sim.Node("mnode", 4, 10000)
	switch class {
	case "healthy":
	case "nolabels":
		n.Labels = nil
	case "zeroalloc":
		for k := range n.Status.Allocatable {
			n.Status.Allocatable[k] = resource.MustParse("0")
		}
		n.Status.Capacity = n.Status.Allocatable.DeepCopy()
	case "emptyalloc":
		n.Status.Allocatable = nil
		n.Status.Capacity = nil
	case "nopods":
		delete(n.Status.Allocatable, v1.ResourcePods)
		delete(n.Status.Capacity, v1.ResourcePods)
	case "gpumem-garbage":
		n.Labels[constants.NvidiaGpuMemory] = "sixteen-gigs"
	case "gpumem-bytes":
		n.Labels[constants.NvidiaGpuMemory] = "85899345920"
	case "gpumem-zero":
		n.Labels[constants.NvidiaGpuMemory] = "0"
	case "gpumem-neg":
		n.Labels[constants.NvidiaGpuMemory] = "-16384"
	case "gpumem-small":
		n.Labels[constants.NvidiaGpuMemory] = "50"
	case "gpucount-mismatch":
		n.Labels[constants.GpuCountLabel] = "16"
	case "gpucount-garbage":
		n.Labels[constants.GpuCountLabel] = "many"
	case "gpucount-zero":
		n.Labels[constants.GpuCountLabel] = "0"
	case "gpucount-neg":
		n.Labels[constants.GpuCountLabel] = "-4"
	case "notready":
		n.Status.Conditions = []v1.NodeCondition{{Type: v1.NodeReady, Status: v1.ConditionFalse}}
	case "noconditions":
		n.Status.Conditions = nil
	case "unschedulable":
		n.Spec.Unschedulable = true
	default:
		panic("harness: unknown node class " + class)
	}
	return n
}

func setAnn(p *v1.Pod, key string, table map[string][]string, class string, k int) {
	s, ok := gpureqcls.Pick(table, class, k)
	if !ok {
		panic("harness: unknown annotation class " + class)
	}
	if s != gpureqcls.Absent {
		p.Annotations[key] = s
	}
}

// quota sets the deserved GPU quota of a queue (cpu / memory stay unlimited).
func quota(q *queuev2.Queue, gpus float64) *queuev2.Queue {
	q.Spec.Resources.GPU.Quota = gpus
	q.Spec.Resources.GPU.OverQuotaWeight = 1
	q.Spec.Resources.GPU.Limit = -1
	return q
}

const arenaLabel = "verif/arena"

// healthyJob: a well-formed job of n pods with `gpus` whole GPUs each, confined to the arena nodes; running pods
// are placed on runOn[i].
func healthyJob(c *sim.Cluster, name, queue string, n int, gpus int64, priorityClass string, runOn []string) {
	pg := sim.PodGroup(name, queue, 1)
	pg.Labels = map[string]string{constants.DefaultQueueLabel: queue}
	pg.Spec.PriorityClassName = priorityClass
	c.PodGroups = append(c.PodGroups, pg)
	for i := 0; i < n; i++ {
		p := sim.Pod(fmt.Sprintf("%s-%d", name, i+1), name)
		sim.SetGPU(&p.Spec.Containers[0], gpus)
		p.Spec.NodeSelector = map[string]string{arenaLabel: "yes"}
		p.Spec.PriorityClassName = priorityClass
		if i < len(runOn) {
			p.Spec.NodeName = runOn[i]
			p.Status.Phase = v1.PodRunning
		}
		c.Pods = append(c.Pods, p)
	}
}

// build materialises a scenario. Situation "alloc": the control workload on an 8-GPU node, the malformed job
// pending next to the (possibly malformed) node mnode, unlimited quotas - only allocate has work.
// Every other situation (see spec/Totality.tla, Sits): a tight cluster - cnode has exactly the control workload's
// 2 GPUs, the "arena" nodes (2 GPUs each; everything but the control workload is confined to them by a node
// selector) are full, and the queue quotas add up to the cluster (control 2, malformed side 1, counterpart 1), so
// that the running side is over its fair share and the pending side under it.
func build(s *scenario) *sim.Cluster {
	c := &sim.Cluster{}
	arena := s.Sit != "" && s.Sit != "alloc"
	sideQuota := 1.0
	if s.Sit == "vconsol" {
		sideQuota = 2
	}
	mkq := func(name, parent string, q float64) *queuev2.Queue {
		if !arena {
			return sim.Queue(name, parent)
		}
		return quota(sim.Queue(name, parent), q)
	}
	// control workload: untouched queues, node, pod group
	cgpus := 8
	if arena {
		cgpus = 2
	}
	c.Nodes = append(c.Nodes, sim.Node("cnode", cgpus, 10000))
	c.Queues = append(c.Queues, mkq("cdept", "", 2), mkq("cteam", "cdept", 2), mkq("rdept", "", sideQuota), mkq("rteam", "rdept", sideQuota))
	c.PriorityClasses = append(c.PriorityClasses, &schedulingv1.PriorityClass{
		ObjectMeta: metav1.ObjectMeta{Name: "verif-high"}, Value: 75})
	c.PodGroups = append(c.PodGroups, sim.PodGroup("cpg", "cteam", 1))
	cp := sim.Pod("cpod", "cpg")
	sim.SetGPU(&cp.Spec.Containers[0], 1)
	cp.Spec.NodeSelector = map[string]string{"kubernetes.io/hostname": "cnode"}
	c.Pods = append(c.Pods, cp)
	// ... and a running control pod (a potential reclaim / preempt / consolidation victim)
	c.PodGroups = append(c.PodGroups, sim.PodGroup("crpg", "cteam", 1))
	cr := sim.Pod("crpod", "crpg")
	sim.SetGPU(&cr.Spec.Containers[0], 1)
	cr.Spec.NodeName = "cnode"
	cr.Status.Phase = v1.PodRunning
	c.Pods = append(c.Pods, cr)

	// malformed side
	if arena {
		names := []string{"anode1"}
		if s.Sit == "vconsol" {
			names = append(names, "anode2")
		}
		for _, n := range names {
			node := sim.Node(n, 2, 10000)
			node.Labels[arenaLabel] = "yes"
			c.Nodes = append(c.Nodes, node)
		}
	} else {
		c.Nodes = append(c.Nodes, malformedNode(s.Node))
	}
	for _, q := range s.Queues {
		parent := q.Parent
		if parent == "missing" {
			parent = missingQueue
		}
		c.Queues = append(c.Queues, mkq(q.Name, parent, sideQuota))
	}
	jobq := s.JobQ
	if jobq == "missing" {
		jobq = missingQueue
	}
	pg := sim.PodGroup("mpg", jobq, int32(s.PgMin))
	if jobq != "" {
		pg.Labels = map[string]string{constants.DefaultQueueLabel: jobq}
	}
	if s.Sit == "preemptor" {
		pg.Spec.PriorityClassName = "verif-high"
	}
	if s.Sit == "stale" {
		if pg.Annotations == nil {
			pg.Annotations = map[string]string{}
		}
		pg.Annotations[constants.StalePodgroupTimeStamp] = time.Now().Add(-2 * time.Hour).UTC().Format(time.RFC3339)
	}
	for _, g := range s.Subs {
		sg := pgv2alpha2.SubGroup{Name: g.Name, MinMember: int32(g.Min)}
		switch g.Parent {
		case "nil":
		case "missing":
			p := "no-such-subgroup"
			sg.Parent = &p
		default:
			p := g.Parent
			sg.Parent = &p
		}
		pg.Spec.SubGroups = append(pg.Spec.SubGroups, sg)
	}
	c.PodGroups = append(c.PodGroups, pg)
	mRunning := s.Sit == "vreclaim" || s.Sit == "vpreempt" || s.Sit == "vconsol"
	for i := 0; i < 2; i++ {
		p := sim.Pod(fmt.Sprintf("mpod%d", i+1), "mpg")
		if i < len(s.Labels) && s.Labels[i] != "" {
			p.Labels[constants.SubGroupLabelKey] = s.Labels[i]
		}
		setAnn(p, constants.GpuFraction, gpureqcls.Frac, s.Frac, s.Var+i)
		setAnn(p, constants.GpuMemory, gpureqcls.Mem, s.Mem, s.Var+i)
		setAnn(p, constants.GpuFractionsNumDevices, gpureqcls.Dev, s.Dev, s.Var+i)
		gpu := s.Gpu
		if arena && gpu == 0 && s.Frac == "absent" && s.Mem == "absent" {
			gpu = 1 // the contended resource of the arena is the GPU
		}
		if gpu > 0 {
			sim.SetGPU(&p.Spec.Containers[0], int64(gpu))
		}
		if s.Pin == 1 {
			p.Spec.NodeSelector = map[string]string{"kubernetes.io/hostname": "mnode"}
		}
		if s.Run == 1 && i == 0 {
			p.Spec.NodeName = "mnode"
			p.Status.Phase = v1.PodRunning
		}
		if arena {
			p.Spec.NodeSelector = map[string]string{arenaLabel: "yes"}
			if s.Sit == "preemptor" {
				p.Spec.PriorityClassName = "verif-high"
			}
			if s.Sit == "stale" {
				if i == 0 {
					p.Spec.NodeName = "anode1"
					p.Status.Phase = v1.PodRunning
				} else {
					p.Spec.NodeSelector = map[string]string{"kubernetes.io/hostname": "no-such-node"}
				}
			}
			if mRunning {
				p.Spec.NodeName = "anode1"
				if s.Sit == "vconsol" && i == 1 {
					p.Spec.NodeName = "anode2"
				}
				p.Status.Phase = v1.PodRunning
			}
		}
		c.Pods = append(c.Pods, p)
	}
	// the well-formed counterpart of the situation
	sameQueue := jobq
	switch s.Sit {
	case "vreclaim":
		healthyJob(c, "rjob", "rteam", 1, 1, "", nil)
	case "vpreempt":
		healthyJob(c, "hjob", sameQueue, 1, 1, "verif-high", nil)
	case "vconsol":
		healthyJob(c, "bjob", "rteam", 1, 2, "", nil)
	case "reclaimer":
		healthyJob(c, "vjob", "rteam", 2, 1, "", []string{"anode1", "anode1"})
	case "preemptor":
		healthyJob(c, "ljob", sameQueue, 2, 1, "", []string{"anode1", "anode1"})
	}
	return c
}

// ---------------------------------------------------------------------------------------------
// child
// ---------------------------------------------------------------------------------------------
var frameRe = regexp.MustCompile(`(?m)^(github\.com/NVIDIA/KAI-scheduler/.+)\([^()]*\)$`)

func emit(w *bufio.Writer, ev map[string]any) {
	b, err := json.Marshal(ev)
	if err != nil {
		panic(err)
	}
	w.WriteString("EV ")
	w.Write(b)
	w.WriteByte('\n')
	w.Flush()
}

// selfTestOverflow: VERIF_TOTALITY_SELFTEST_OVERFLOW=<scenario id>:<n>:<counter file> makes the child die the way
// apimachinery's FakeWatcher does (panic: channel full) the first n times it is given that scenario - used only by
// the harness self-test of the retry / drop path (lib/selftest_totality.sh), never by a check.
func selfTestOverflow(s *scenario, out *bufio.Writer) {
	st := os.Getenv("VERIF_TOTALITY_SELFTEST_OVERFLOW")
	if st == "" {
		return
	}
	parts := strings.SplitN(st, ":", 3)
	if len(parts) != 3 || parts[0] != s.ID {
		return
	}
	n := 0
	fmt.Sscanf(parts[1], "%d", &n)
	b, _ := os.ReadFile(parts[2])
	if len(b) < n {
		_ = os.WriteFile(parts[2], append(b, 'x'), 0o644)
		out.Flush()
		panic("channel full")
	}
}

func child() {
	sim.Init(0)
	in := bufio.NewReaderSize(os.Stdin, 1<<20)
	out := bufio.NewWriterSize(os.Stdout, 1<<16)
	for {
		line, err := in.ReadString('\n')
		if len(strings.TrimSpace(line)) > 0 {
			var s scenario
			if e := json.Unmarshal([]byte(line), &s); e != nil {
				fmt.Fprintln(os.Stderr, "harness: bad scenario:", e)
				os.Exit(3)
			}
			emit(out, s.event())
			selfTestOverflow(&s, out)
			c := build(&s)
			res := sim.RunCycle(c,
				func() { emit(out, map[string]any{"ev": "CycleStart"}) },
				func(q []string) {
					l := []any{}
					for _, x := range q {
						l = append(l, x)
					}
					emit(out, map[string]any{"ev": "Snapshot", "live": l})
				})
			for _, br := range res.BindRequests {
				emit(out, map[string]any{"ev": "Bind", "pod": br.Spec.PodName, "node": br.Spec.SelectedNode})
			}
			if res.Panic != "" {
				where := ""
				for _, m := range frameRe.FindAllStringSubmatch(res.PanicStack, -1) {
					if !strings.Contains(m[1], "totalitysim") {
						where = strings.TrimPrefix(m[1], "github.com/NVIDIA/KAI-scheduler/")
						break
					}
				}
				fmt.Fprintf(os.Stderr, "recovered panic in scenario %s: %s\n%s\n", s.ID, res.Panic, res.PanicStack)
				msg := res.Panic
				if len(msg) > 300 {
					msg = msg[:300]
				}
				emit(out, map[string]any{"ev": "Panic", "msg": msg, "where": where})
			} else {
				emit(out, map[string]any{"ev": "CycleEnd", "ms": int(res.DurationMs), "openerr": res.OpenErr})
			}
			emit(out, map[string]any{"ev": "_done"})
		}
		if err != nil {
			return
		}
	}
}

// ---------------------------------------------------------------------------------------------
// parent
// ---------------------------------------------------------------------------------------------
type worker struct {
	cmd    *exec.Cmd
	stdin  io.WriteCloser
	lines  chan string
	stderr *tailBuf
}

type tailBuf struct {
	mu  sync.Mutex
	buf []byte
}

func (t *tailBuf) Write(p []byte) (int, error) {
	t.mu.Lock()
	defer t.mu.Unlock()
	t.buf = append(t.buf, p...)
	if len(t.buf) > 1<<16 {
		t.buf = t.buf[len(t.buf)-(1<<15):]
	}
	return len(p), nil
}

func (t *tailBuf) String() string {
	t.mu.Lock()
	defer t.mu.Unlock()
	return string(t.buf)
}

func spawn() *worker {
	cmd := exec.Command(os.Args[0], "-child")
	stdin, err := cmd.StdinPipe()
	if err != nil {
		panic(err)
	}
	stdout, err := cmd.StdoutPipe()
	if err != nil {
		panic(err)
	}
	w := &worker{cmd: cmd, stdin: stdin, lines: make(chan string, 256), stderr: &tailBuf{}}
	cmd.Stderr = w.stderr
	if err := cmd.Start(); err != nil {
		panic(err)
	}
	go func() {
		r := bufio.NewReaderSize(stdout, 1<<20)
		for {
			line, err := r.ReadString('\n')
			if strings.HasPrefix(line, "EV ") {
				w.lines <- strings.TrimSpace(line[3:])
			}
			if err != nil {
				close(w.lines)
				return
			}
		}
	}()
	return w
}

func (w *worker) kill() {
	_ = w.cmd.Process.Kill()
	_, _ = w.cmd.Process.Wait()
}

var fatalRe = regexp.MustCompile(`(?m)^(panic: .*|fatal error: .*|runtime: goroutine stack exceeds.*)$`)

func main() {
	childMode := flag.Bool("child", false, "serve scenarios from stdin")
	in := flag.String("in", "", "scenarios (ndjson)")
	out := flag.String("out", "", "trace (ndjson)")
	par := flag.Int("par", 8, "parallel child processes")
	timeout := flag.Duration("timeout", 20*time.Second, "watchdog per scenario")
	hangcap := flag.Int("hangcap", 1, "stop running scenarios of a sig after this many timeouts (0 = never)")
	flag.Parse()
	if *childMode {
		child()
		return
	}
	f, err := os.Open(*in)
	if err != nil {
		fmt.Fprintln(os.Stderr, err)
		os.Exit(2)
	}
	var scens []*scenario
	sc := bufio.NewScanner(f)
	sc.Buffer(make([]byte, 1<<20), 1<<24)
	for sc.Scan() {
		if len(strings.TrimSpace(sc.Text())) == 0 {
			continue
		}
		s := &scenario{}
		if err := json.Unmarshal(sc.Bytes(), s); err != nil {
			fmt.Fprintln(os.Stderr, "bad scenario:", err)
			os.Exit(2)
		}
		if s.ID == "" {
			s.ID = fmt.Sprintf("s%05d", len(scens)+1)
		}
		scens = append(scens, s)
	}
	f.Close()
	// predicted-hanging scenarios first: their watchdog time overlaps with the rest of the work
	order := make([]int, len(scens))
	for i := range order {
		order[i] = i
	}
	sort.SliceStable(order, func(a, b int) bool { return scens[order[a]].Hang > scens[order[b]].Hang })

	results := make([][]string, len(scens))
	var mu sync.Mutex
	pending := order
	timeouts := map[string]int{}
	inflight := map[string]int{}
	skipped, nTimeout, nDied, nPanic, nRetried, nOverflow := 0, 0, 0, 0, 0, 0
	// pick the next runnable scenario. Scenarios of a sig that already reached -hangcap timeouts are
	// dropped; predicted-hanging scenarios of a sig wait while -hangcap of them are in flight (so that
	// an unrepaired tree costs hangcap watchdog periods per sig, not one per worker).
	pick := func() (idx int, ok bool, wait bool) {
		mu.Lock()
		defer mu.Unlock()
		keep := pending[:0]
		found := -1
		for _, i := range pending {
			s := scens[i]
			if found >= 0 {
				keep = append(keep, i)
				continue
			}
			if *hangcap > 0 && timeouts[s.Sig] >= *hangcap {
				skipped++
				continue
			}
			if *hangcap > 0 && s.Hang == 1 && inflight[s.Sig] >= *hangcap {
				keep = append(keep, i)
				continue
			}
			found = i
			inflight[s.Sig]++
		}
		pending = keep
		if found >= 0 {
			return found, true, false
		}
		return 0, false, len(pending) > 0
	}
	var wg sync.WaitGroup
	for p := 0; p < *par; p++ {
		wg.Add(1)
		go func() {
			defer wg.Done()
			var w *worker
			defer func() {
				if w != nil {
					w.stdin.Close()
					w.kill()
				}
			}()
			for {
				idx, ok, wait := pick()
				if !ok {
					if wait {
						time.Sleep(50 * time.Millisecond)
						continue
					}
					return
				}
				s := scens[idx]
				b, _ := json.Marshal(s)
				var evs []string
				// A scenario that does not complete within the watchdog period is run a second time in a fresh
				// child with a three times longer period: only a scenario that fails to complete twice is a
				// Timeout (a machine-wide stall must not look like a non-terminating cycle).
				overflows, dropped := 0, false
				for attempt := 1; attempt <= 2; attempt++ {
					overflowRetry := false
					period := *timeout
					if attempt == 2 {
						period = 3 * *timeout
					}
					if w == nil {
						w = spawn()
					}
					if _, err := w.stdin.Write(append(b, '\n')); err != nil {
						// the child is gone (should not happen between scenarios): restart once
						w.kill()
						w = spawn()
						_, _ = w.stdin.Write(append(b, '\n'))
					}
					evs = nil
					timedOut := false
					timer := time.NewTimer(period)
					done := false
					for !done {
						select {
						case line, ok := <-w.lines:
							if !ok {
								// process died
								tail := w.stderr.String()
								msg := "process died"
								if m := fatalRe.FindString(tail); m != "" {
									msg = "process died: " + m
								}
								where := ""
								if i := strings.Index(tail, msg[len("process died"):]); i >= 0 {
									for _, m := range frameRe.FindAllStringSubmatch(tail[i:], -1) {
										where = strings.TrimPrefix(m[1], "github.com/NVIDIA/KAI-scheduler/")
										break
									}
								}
								if len(msg) > 300 {
									msg = msg[:300]
								}
								if strings.Contains(msg, "channel full") {
									// the buffered watch channel of the fake API server overflowed (apimachinery
									// watch.FakeWatcher panics instead of blocking): an artefact of the fake, not of the
									// scheduler - the scenario is run again in a fresh child (up to four more times, the
									// overflow depends on how fast the informer goroutines drain the channel on a loaded
									// machine); a scenario that still overflows gives no verdict and is left out
									w.kill()
									w = nil
									overflows++
									if overflows <= 4 {
										overflowRetry = true
									} else {
										dropped = true
									}
									done = true
									break
								}
								pe, _ := json.Marshal(map[string]any{"ev": "Panic", "msg": msg, "where": where})
								evs = append(evs, string(pe))
								w.kill()
								w = nil
								mu.Lock()
								nDied++
								mu.Unlock()
								done = true
								break
							}
							if strings.Contains(line, `"ev":"_done"`) {
								done = true
								break
							}
							if strings.Contains(line, `"ev":"Panic"`) {
								mu.Lock()
								nPanic++
								mu.Unlock()
							}
							evs = append(evs, line)
						case <-timer.C:
							w.kill()
							w = nil
							timedOut = true
							done = true
						}
					}
					timer.Stop()
					if overflowRetry {
						mu.Lock()
						nRetried++
						mu.Unlock()
						time.Sleep(time.Duration(overflows) * 200 * time.Millisecond)
						attempt--
						continue
					}
					if dropped || !timedOut {
						break
					}
					if attempt == 1 {
						mu.Lock()
						nRetried++
						mu.Unlock()
						continue
					}
					te, _ := json.Marshal(map[string]any{"ev": "Timeout", "after": int(timeout.Seconds()) + int(period.Seconds())})
					evs = append(evs, string(te))
					mu.Lock()
					timeouts[s.Sig]++
					nTimeout++
					mu.Unlock()
				}
				if dropped {
					mu.Lock()
					nOverflow++
					inflight[s.Sig]--
					mu.Unlock()
					continue
				}
				if len(evs) == 0 || !strings.Contains(evs[0], `"ev":"Scenario"`) {
					// the child died before echoing the scenario: write the scenario line ourselves
					se, _ := json.Marshal(s.event())
					evs = append([]string{string(se)}, evs...)
				}
				mu.Lock()
				results[idx] = evs
				inflight[s.Sig]--
				mu.Unlock()
			}
		}()
	}
	wg.Wait()
	tw, err := tracefmt.Create(*out)
	if err != nil {
		fmt.Fprintln(os.Stderr, err)
		os.Exit(2)
	}
	ran := 0
	for _, evs := range results {
		if evs == nil {
			continue
		}
		ran++
		for _, e := range evs {
			var m map[string]any
			if err := json.Unmarshal([]byte(e), &m); err != nil {
				fmt.Fprintln(os.Stderr, "bad event from child:", e)
				os.Exit(2)
			}
			tw.Emit(m)
		}
	}
	if err := tw.Close(); err != nil {
		fmt.Fprintln(os.Stderr, err)
		os.Exit(2)
	}
	fmt.Printf("scenarios=%d ran=%d skipped_after_hangcap=%d timeouts=%d (first-attempt timeouts retried=%d) recovered_panics=%d process_deaths=%d events=%d fake_overflow_dropped=%d\n",
		len(scens), ran, skipped, nTimeout, nRetried, nPanic, nDied, tw.Count(), nOverflow)
}
